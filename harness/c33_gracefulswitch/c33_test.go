//go:build verif

package gracefulswitch

import (
	"fmt"
	"strings"
	"testing"
	"testing/synctest"

	"google.golang.org/grpc/balancer"
	"google.golang.org/grpc/connectivity"
	"google.golang.org/grpc/internal/verif/seqx"
	"google.golang.org/grpc/internal/verif/vk"
	"google.golang.org/grpc/resolver"
)

// ---- C33: switching LB policies is graceful and isolates the old policy ----
//
// E2 (seqx BFS over event histories applied to a FRESH real gracefulswitch
// Balancer inside a synctest bubble). The oracle is c33Model, a boring
// current/pending machine written from the property statement.

// ------------------------------------------------------------------ oracle ----

// c33Fwd is one state update that reaches the channel: which policy's picker
// (child index; -1 = a picker that belongs to no stub policy) and which report
// of that policy (seq; 0 = the policy never reported).
type c33Fwd struct {
	child int
	seq   int
	state connectivity.State
}

type c33MChild struct {
	name     string
	closed   bool
	reported bool
	state    connectivity.State
	seq      int
}

// c33Model is the reference machine:
//
//	RPCs keep using the old (current) policy's picker while old is READY and
//	new (pending) is CONNECTING; as soon as the new reports any other state, or
//	the old leaves READY, the new becomes current and the old is closed; nothing
//	from a closed or superseded policy reaches the channel.
type c33Model struct {
	closed         bool
	cur, pend, old int // child indices, -1 = none; old = most recently closed child
	ch             []*c33MChild
	expect         []c33Fwd // updates that must reach the channel during the running event, in order
	effect         string   // classification of what the running event did (vacuity statistics)
}

func c33NewModel() *c33Model { return &c33Model{cur: -1, pend: -1, old: -1} }

// stateOf is the state a policy "is in": its last report; a policy that has
// not said anything yet is still CONNECTING.
func (m *c33Model) stateOf(i int) connectivity.State {
	if !m.ch[i].reported {
		return connectivity.Connecting
	}
	return m.ch[i].state
}

func (m *c33Model) forward(i int) {
	c := m.ch[i]
	m.expect = append(m.expect, c33Fwd{child: i, seq: c.seq, state: m.stateOf(i)})
}

func (m *c33Model) closeChild(i int) {
	m.ch[i].closed = true
	m.old = i
}

func (m *c33Model) swap() {
	m.closeChild(m.cur)
	m.cur, m.pend = m.pend, -1
	m.forward(m.cur) // the channel now uses the new policy's latest state
}

// switchTo returns the index of the policy that must be built, or -1.
func (m *c33Model) switchTo(name string) int {
	if m.closed {
		m.effect = "switch-after-close"
		return -1
	}
	m.ch = append(m.ch, &c33MChild{name: name})
	n := len(m.ch) - 1
	switch {
	case m.cur < 0:
		m.cur = n
		m.effect = "switch-first"
	case m.pend < 0:
		m.pend = n
		m.effect = "switch-pending"
	default:
		m.closeChild(m.pend) // superseded before it ever became current
		m.pend = n
		m.effect = "switch-supersede"
	}
	return n
}

func (m *c33Model) latest() int {
	if m.pend >= 0 {
		return m.pend
	}
	return m.cur
}

// report: policy i reports state s (with a new picker).
func (m *c33Model) report(i int, s connectivity.State) {
	c := m.ch[i]
	c.seq++
	c.reported = true
	c.state = s
	if m.closed || c.closed {
		m.effect += "+dropped-closed"
		return // closed / superseded: must never reach the channel
	}
	switch i {
	case m.cur:
		if m.pend >= 0 && s != connectivity.Ready {
			m.swap()
			m.effect += "+swap-old-left-ready"
			return
		}
		m.forward(i)
		if m.pend >= 0 {
			m.effect += "+forward-current-while-pending"
		} else {
			m.effect += "+forward-current"
		}
	case m.pend:
		if s != connectivity.Connecting || m.stateOf(m.cur) != connectivity.Ready {
			m.swap()
			if s != connectivity.Connecting {
				m.effect += "+swap-new-not-connecting"
			} else {
				m.effect += "+swap-old-not-ready"
			}
			return
		}
		m.effect += "+held-pending-connecting"
	}
}

func (m *c33Model) close() {
	m.closed = true
	if m.cur >= 0 {
		m.closeChild(m.cur)
	}
	if m.pend >= 0 {
		m.closeChild(m.pend)
	}
	m.cur, m.pend = -1, -1
	m.effect = "close"
}

// ------------------------------------------------------- fakes and stubs ----

// c33Picker is the tagged picker a stub policy attaches to a report.
type c33Picker struct {
	child, seq int
	st         connectivity.State
}

func (p *c33Picker) Pick(balancer.PickInfo) (balancer.PickResult, error) {
	return balancer.PickResult{}, fmt.Errorf("c33 picker child=%d seq=%d", p.child, p.seq)
}

// c33SC is a fake SubConn handed out by the fake channel.
type c33SC struct {
	balancer.SubConn
	w             *c33World
	id            int
	owner         int // stub policy that was calling NewSubConn (-1 unknown)
	listener      func(balancer.SubConnState)
	shutdowns     int
	shutByParent  int // Shutdown calls not made by the owning stub policy itself
	shutDelivered bool
}

func (sc *c33SC) Shutdown() {
	sc.shutdowns++
	if !sc.w.childShutting {
		sc.shutByParent++
	}
}
func (sc *c33SC) Connect()                                           {}
func (sc *c33SC) UpdateAddresses([]resolver.Address)                 {}
func (sc *c33SC) RegisterHealthListener(func(balancer.SubConnState)) {}
func (sc *c33SC) GetOrBuildProducer(balancer.ProducerBuilder) (balancer.Producer, func()) {
	return nil, func() {}
}

// c33CC is the fake recording channel (parent balancer.ClientConn).
type c33CC struct {
	balancer.ClientConn
	w *c33World
}

func (cc *c33CC) NewSubConn(_ []resolver.Address, opts balancer.NewSubConnOptions) (balancer.SubConn, error) {
	w := cc.w
	sc := &c33SC{w: w, id: len(w.scs), owner: w.caller, listener: opts.StateListener}
	w.scs = append(w.scs, sc)
	if f := w.nested; f != nil {
		w.nested = nil // the subchannel exists, the call has not returned yet
		f()
	}
	return sc, nil
}
func (cc *c33CC) RemoveSubConn(sc balancer.SubConn)                        { sc.Shutdown() }
func (cc *c33CC) UpdateAddresses(balancer.SubConn, []resolver.Address)     {}
func (cc *c33CC) UpdateState(s balancer.State)                             { cc.w.updates = append(cc.w.updates, s); cc.w.last = &s }
func (cc *c33CC) ResolveNow(resolver.ResolveNowOptions)                    { cc.w.resolveNow++ }
func (cc *c33CC) Target() string                                           { return "c33:///x" }

// c33Child is a stub LB policy; everything it does is driven by the explorer.
// Policies built by the "reactive" builder additionally call back inline the
// way real policies do (from Build, from a SubConn listener, from ExitIdle).
type c33Child struct {
	w        *c33World
	idx      int
	name     string
	reactive bool
	cc       balancer.ClientConn // the balancerWrapper
	seq      int
	state    connectivity.State
	reported bool
	closes   int
	uccs     int
	exitIdle int
	scUpd    int
	scs      []*c33SC
	scErrs   int
}

func (c *c33Child) report(s connectivity.State) {
	c.w.m.report(c.idx, s) // tell the reference model first: it computes what must reach the channel
	c.seq++
	c.state, c.reported = s, true
	c.cc.UpdateState(balancer.State{ConnectivityState: s, Picker: &c33Picker{child: c.idx, seq: c.seq, st: s}})
}

func (c *c33Child) newSubConn() {
	w := c.w
	prev := w.caller
	w.caller = c.idx
	var mine *c33SC
	sc, err := c.cc.NewSubConn([]resolver.Address{{Addr: fmt.Sprintf("a%d", c.idx)}}, balancer.NewSubConnOptions{
		StateListener: func(s balancer.SubConnState) { c.onSC(mine, s) },
	})
	w.caller = prev
	if err != nil || sc == nil {
		c.scErrs++
		return
	}
	mine, _ = sc.(*c33SC)
	if mine == nil {
		w.fail("harness", "NewSubConn returned a SubConn of type %T that the fake channel did not create", sc)
		return
	}
	c.scs = append(c.scs, mine)
}

func (c *c33Child) onSC(_ *c33SC, s balancer.SubConnState) {
	c.scUpd++
	if c.reactive && s.ConnectivityState == connectivity.Ready {
		c.report(connectivity.Ready)
	}
}

func (c *c33Child) UpdateClientConnState(balancer.ClientConnState) error { c.uccs++; return nil }
func (c *c33Child) ResolverError(error)                                  {}
func (c *c33Child) UpdateSubConnState(balancer.SubConn, balancer.SubConnState) {
}
func (c *c33Child) Close() { c.closes++ }
func (c *c33Child) ExitIdle() {
	c.exitIdle++
	if c.reactive && c.reported && c.state == connectivity.Idle {
		c.report(connectivity.Connecting)
	}
}

type c33Builder struct {
	name     string
	reactive bool
}

func (b c33Builder) Name() string { return b.name }
func (b c33Builder) Build(cc balancer.ClientConn, _ balancer.BuildOptions) balancer.Balancer {
	bw, _ := cc.(*balancerWrapper)
	if bw == nil {
		panic(fmt.Sprintf("c33: Build got a %T", cc))
	}
	w := bw.gsb.cc.(*c33CC).w
	c := &c33Child{w: w, idx: len(w.children), name: b.name, reactive: b.reactive, cc: cc}
	w.children = append(w.children, c)
	if c.idx != w.expectBuild {
		w.fail("unexpected-build", "a policy (%s) was built although the reference machine expects none (balancer closed=%v)", b.name, w.m.closed)
		for len(w.m.ch) <= c.idx {
			w.m.ch = append(w.m.ch, &c33MChild{name: b.name, closed: true})
		}
	}
	w.expectBuild = -1
	if c.reactive {
		c.newSubConn()
		c.report(connectivity.Connecting)
	}
	return c
}

const (
	c33NameA = "c33_passive_a"
	c33NameB = "c33_reactive_b"
)

var (
	c33BuilderA = c33Builder{name: c33NameA}
	c33BuilderB = c33Builder{name: c33NameB, reactive: true}
)

// -------------------------------------------------------------- the world ----

type c33World struct {
	gsb *Balancer
	cc  *c33CC
	m   *c33Model

	children []*c33Child
	scs      []*c33SC
	updates  []balancer.State // UpdateState calls that reached the channel during the running event
	last     *balancer.State
	allFwd   int

	caller        int
	nested        func() // event to run inside the channel's NewSubConn (re-entrant histories)
	childShutting bool
	expectBuild   int
	resolveNow    int
	maxSC         int

	fails  []seqx.Fail
	failed map[string]bool
}

func c33NewWorld(maxSC int) *c33World {
	w := &c33World{m: c33NewModel(), caller: -1, expectBuild: -1, maxSC: maxSC, failed: map[string]bool{}}
	w.cc = &c33CC{w: w}
	w.gsb = NewBalancer(w.cc, balancer.BuildOptions{})
	return w
}

func (w *c33World) fail(class, format string, a ...any) {
	if w.failed[class] {
		return
	}
	w.failed[class] = true
	w.fails = append(w.fails, seqx.Fail{Prop: "C33", Key: class, Desc: fmt.Sprintf(format, a...)})
}

func c33St(s connectivity.State) string {
	switch s {
	case connectivity.Connecting:
		return "C"
	case connectivity.Ready:
		return "R"
	case connectivity.TransientFailure:
		return "TF"
	case connectivity.Idle:
		return "I"
	}
	return s.String()
}

func (w *c33World) fwdOf(s balancer.State) c33Fwd {
	if p, ok := s.Picker.(*c33Picker); ok {
		if p.st != s.ConnectivityState {
			w.fail("state-picker-mismatch", "the channel got state %v with the picker policy #%d attached to its %v report", s.ConnectivityState, p.child, p.st)
		}
		return c33Fwd{child: p.child, seq: p.seq, state: s.ConnectivityState}
	}
	return c33Fwd{child: -1, seq: 0, state: s.ConnectivityState}
}

func (w *c33World) fwdStr(f c33Fwd) string {
	if f.child < 0 {
		return fmt.Sprintf("(%s, picker of no policy)", c33St(f.state))
	}
	return fmt.Sprintf("(%s, picker #%d of policy %d)", c33St(f.state), f.seq, f.child)
}

// check compares the real balancer with the reference machine after an event
// has run to quiescence.
func (w *c33World) check(ev string) {
	m := w.m
	// (1) exactly the predicted updates reached the channel, in order.
	var act []c33Fwd
	for _, s := range w.updates {
		act = append(act, w.fwdOf(s))
	}
	exp := make([]c33Fwd, len(m.expect))
	for i, e := range m.expect {
		if e.seq == 0 {
			e.child = -1 // a policy that never reported has no picker of its own
		}
		exp[i] = e
	}
	same := len(act) == len(exp)
	for i := 0; same && i < len(act); i++ {
		same = act[i] == exp[i]
	}
	if !same {
		var as, es []string
		for _, a := range act {
			as = append(as, w.fwdStr(a))
		}
		for _, e := range exp {
			es = append(es, w.fwdStr(e))
		}
		class := "forwarded-updates-differ"
		for _, a := range act {
			if a.child >= 0 && a.child < len(m.ch) {
				if m.ch[a.child].closed {
					class = "closed-policy-update-reached-channel"
					break
				}
				if a.child == m.pend {
					class = "pending-policy-update-reached-channel"
					break
				}
			}
		}
		if class == "forwarded-updates-differ" && len(act) == 0 {
			class = "update-did-not-reach-channel"
		}
		w.fail(class, "event %s: the channel received %v, the reference machine requires %v (current=%d pending=%d closed=%v)", ev, as, es, m.cur, m.pend, m.closed)
	}
	w.allFwd += len(w.updates)
	// (1b) invariant: what RPCs use now is the current policy's latest state.
	if m.cur >= 0 && w.last != nil {
		f := w.fwdOf(*w.last)
		want := c33Fwd{child: m.cur, seq: m.ch[m.cur].seq, state: m.stateOf(m.cur)}
		if want.seq == 0 {
			want.child = -1
		}
		if f != want {
			w.fail("channel-picker-not-from-current-policy", "after %s RPCs use %s but the current policy %d's latest state is %s", ev, w.fwdStr(f), m.cur, w.fwdStr(want))
		}
	}
	// (2) a policy is closed exactly when the reference machine closes it.
	for i, c := range w.children {
		wantClosed := i < len(m.ch) && m.ch[i].closed
		switch {
		case wantClosed && c.closes == 0:
			w.fail("old-policy-not-closed", "after %s policy %d (%s) is closed/superseded in the reference machine but Close was never called on it", ev, i, c.name)
		case !wantClosed && c.closes > 0:
			w.fail("live-policy-closed", "after %s policy %d (%s) was closed although it is still current/pending", ev, i, c.name)
		case c.closes > 1:
			w.fail("policy-closed-twice", "after %s policy %d (%s) was closed %d times", ev, i, c.name, c.closes)
		}
	}
	// (3) subchannels of a closed policy are shut down; those of live ones are not.
	for _, sc := range w.scs {
		if sc.owner < 0 || sc.owner >= len(m.ch) {
			w.fail("harness", "subchannel %d has no owner", sc.id)
			continue
		}
		if m.ch[sc.owner].closed && sc.shutdowns == 0 {
			w.fail("subchannel-of-closed-policy-not-shut-down", "after %s subchannel %d created by closed policy %d is still not shut down", ev, sc.id, sc.owner)
		}
		if !m.ch[sc.owner].closed && sc.shutByParent > 0 {
			w.fail("subchannel-of-live-policy-shut-down", "after %s subchannel %d of live policy %d was shut down by the graceful switch balancer", ev, sc.id, sc.owner)
		}
	}
	// (4) who is current / pending inside the real balancer.
	w.gsb.mu.Lock()
	rc, rp, rclosed := w.childOf(w.gsb.balancerCurrent), w.childOf(w.gsb.balancerPending), w.gsb.closed
	w.gsb.mu.Unlock()
	if rc != m.cur || rp != m.pend {
		w.fail("current-pending-differ", "after %s the real balancer has current=%d pending=%d, the reference machine current=%d pending=%d", ev, rc, rp, m.cur, m.pend)
	}
	if rclosed != m.closed {
		w.fail("closed-flag-differs", "after %s real closed=%v, reference closed=%v", ev, rclosed, m.closed)
	}
}

// childOf maps a real balancerWrapper to the stub policy it wraps (-1 nil, -2 unknown).
func (w *c33World) childOf(bw *balancerWrapper) int {
	if bw == nil {
		return -1
	}
	for _, c := range w.children {
		if c.cc == balancer.ClientConn(bw) {
			return c.idx
		}
	}
	return -2
}

// key is the canonical state: reference machine + the real balancer's
// private fields, expressed by role (current / pending / most recently closed)
// so that it does not grow with the number of switches.
func (w *c33World) key() string {
	m := w.m
	var sb strings.Builder
	role := func(i int) string {
		switch {
		case i < 0:
			return "-"
		case i == m.cur:
			return "cur"
		case i == m.pend:
			return "pend"
		case i == m.old:
			return "old"
		case i < len(m.ch) && m.ch[i].closed:
			return "dead"
		}
		return fmt.Sprintf("?%d", i)
	}
	pick := func(p balancer.Picker) string {
		tp, ok := p.(*c33Picker)
		if !ok {
			return "nopolicy"
		}
		r := role(tp.child)
		if tp.child < len(w.children) && tp.seq == w.children[tp.child].seq {
			return r + ".latest"
		}
		return r + ".stale"
	}
	w.gsb.mu.Lock()
	defer w.gsb.mu.Unlock()
	fmt.Fprintf(&sb, "closed=%v/%v", m.closed, w.gsb.closed)
	desc := func(tag string, i int, bw *balancerWrapper) {
		fmt.Fprintf(&sb, " | %s:", tag)
		if i < 0 {
			sb.WriteString("-")
		} else {
			c := m.ch[i]
			live := !c.closed
			fmt.Fprintf(&sb, "%s", c.name[len("c33_"):len("c33_")+1])
			if live {
				// a closed policy's last state can never matter again
				fmt.Fprintf(&sb, " rep=%v st=%s", c.reported, c33St(m.stateOf(i)))
			}
			if i < len(w.children) {
				rc := w.children[i]
				fmt.Fprintf(&sb, " closes=%d sc=[", rc.closes)
				for _, sc := range rc.scs {
					switch {
					case sc.shutDelivered:
						sb.WriteString("D")
					case sc.shutdowns > 0:
						sb.WriteString("S")
					default:
						sb.WriteString("L")
					}
					if bw != nil && bw.subconns[sc] {
						sb.WriteString("m")
					}
				}
				sb.WriteString("]")
			}
		}
		fmt.Fprintf(&sb, " real=%s", role(w.childOf(bw)))
		if bw != nil {
			fmt.Fprintf(&sb, " last=%s/%s nsc=%d", c33St(bw.lastState.ConnectivityState), pick(bw.lastState.Picker), len(bw.subconns))
		}
	}
	desc("cur", m.cur, w.gsb.balancerCurrent)
	desc("pend", m.pend, w.gsb.balancerPending)
	desc("old", m.old, nil)
	if w.last == nil {
		sb.WriteString(" | chan:-")
	} else {
		fmt.Fprintf(&sb, " | chan:%s/%s", c33St(w.last.ConnectivityState), pick(w.last.Picker))
	}
	return sb.String()
}

// ---------------------------------------------------------------- events ----

type c33Op struct {
	name string
	do   func(w *c33World) bool // false = not applicable in this state
}

func (w *c33World) roleIdx(role string) int {
	switch role {
	case "cur":
		return w.m.cur
	case "pend":
		return w.m.pend
	}
	return w.m.old
}

func (w *c33World) doSwitch(b c33Builder, viaConfig bool, cfg *lbConfig) {
	n := w.m.switchTo(b.name)
	w.expectBuild = n
	if viaConfig {
		w.gsb.UpdateClientConnState(balancer.ClientConnState{BalancerConfig: cfg})
	} else {
		w.gsb.SwitchTo(b)
	}
	if w.expectBuild >= 0 {
		w.fail("policy-not-built", "switching to %s did not build a policy", b.name)
		w.expectBuild = -1
	}
}

// c33Nested is an event that happens while a NewSubConn call is in flight.
type c33Nested struct {
	label   string
	prepare func(w *c33World) func() // nil result = not applicable
}

// c33NewSCOp: the policy in the given role calls NewSubConn; with nested != nil
// the nested event runs inside the channel's NewSubConn before it returns.
func c33NewSCOp(role, label string, nested *c33Nested) c33Op {
	name := role + ".NewSubConn"
	if nested != nil {
		name += "{during the call: " + label + "}"
	}
	return c33Op{name, func(w *c33World) bool {
		i := w.roleIdx(role)
		if i < 0 || i >= len(w.children) {
			return false
		}
		c := w.children[i]
		if len(c.scs) >= w.maxSC {
			return false
		}
		w.m.effect = role + "-newsubconn"
		if nested != nil {
			f := nested.prepare(w)
			if f == nil {
				return false
			}
			w.nested = func() {
				prefix := role + "-newsubconn-during-" + label
				w.m.effect = ""
				f()
				w.m.effect = prefix + ":" + w.m.effect
				if w.m.ch[i].closed {
					w.m.effect += "+caller-closed-during-call"
				}
			}
		}
		before := len(w.scs)
		c.newSubConn()
		w.nested = nil // (if the call never reached the channel the nested event simply did not happen)
		if w.m.ch[i].closed || w.m.closed {
			// a closed policy must not be left with a live subchannel, also when
			// it was closed while the call was in flight
			for _, sc := range w.scs[before:] {
				if sc.owner == i && sc.shutdowns == 0 {
					w.fail("closed-policy-created-live-subchannel", "closed policy %d called NewSubConn (closed before or during the call) and subchannel %d was created on the channel and not shut down", i, sc.id)
				}
			}
		}
		return true
	}}
}

func c33Ops(cfgA, cfgB *lbConfig) []c33Op {
	ops := []c33Op{
		{"switchTo(A)", func(w *c33World) bool { w.doSwitch(c33BuilderA, false, nil); return true }},
		{"switchTo(B)", func(w *c33World) bool { w.doSwitch(c33BuilderB, false, nil); return true }},
		{"close", func(w *c33World) bool {
			if w.m.closed {
				return false
			}
			w.m.close()
			w.gsb.Close()
			return true
		}},
		{"resolverUpdate", func(w *c33World) bool {
			w.m.effect = "resolver-update"
			w.gsb.UpdateClientConnState(balancer.ClientConnState{})
			return true
		}},
		{"exitIdle", func(w *c33World) bool {
			w.m.effect = "exit-idle"
			w.gsb.ExitIdle()
			return true
		}},
	}
	cfgOp := func(label string, b c33Builder, cfg *lbConfig) c33Op {
		return c33Op{"resolverUpdate(config=" + label + ")", func(w *c33World) bool {
			m := w.m
			// automatic switch only when the newest policy has a different name
			if l := m.latest(); l < 0 || m.ch[l].name != b.name {
				w.doSwitch(b, true, cfg)
				return true
			}
			m.effect = "config-same-policy"
			w.gsb.UpdateClientConnState(balancer.ClientConnState{BalancerConfig: cfg})
			return true
		}}
	}
	ops = append(ops, cfgOp("A", c33BuilderA, cfgA), cfgOp("B", c33BuilderB, cfgB))
	states := []connectivity.State{connectivity.Connecting, connectivity.Ready, connectivity.TransientFailure, connectivity.Idle}
	for _, role := range []string{"cur", "pend", "old"} {
		role := role
		for _, s := range states {
			s := s
			ops = append(ops, c33Op{fmt.Sprintf("%s.UpdateState(%s)", role, c33St(s)), func(w *c33World) bool {
				i := w.roleIdx(role)
				if i < 0 || i >= len(w.children) {
					return false
				}
				w.m.effect = role + "-reports"
				w.children[i].report(s)
				return true
			}})
		}
		ops = append(ops, c33NewSCOp(role, "", nil))
		ops = append(ops, c33Op{role + ".subConnState(READY)", func(w *c33World) bool {
			i := w.roleIdx(role)
			if i < 0 || i >= len(w.children) {
				return false
			}
			for _, sc := range w.children[i].scs {
				if !sc.shutDelivered {
					w.m.effect = role + "-subconn-ready"
					sc.listener(balancer.SubConnState{ConnectivityState: connectivity.Ready})
					return true
				}
			}
			return false
		}})
		if role == "old" {
			continue
		}
		ops = append(ops, c33Op{role + ".ShutdownSubConn", func(w *c33World) bool {
			i := w.roleIdx(role)
			if i < 0 || i >= len(w.children) {
				return false
			}
			for _, sc := range w.children[i].scs {
				if sc.shutdowns == 0 {
					w.m.effect = role + "-shuts-subconn"
					w.childShutting = true
					sc.Shutdown()
					w.childShutting = false
					return true
				}
			}
			return false
		}})
		ops = append(ops, c33Op{role + ".subConnState(SHUTDOWN)", func(w *c33World) bool {
			i := w.roleIdx(role)
			if i < 0 || i >= len(w.children) {
				return false
			}
			for _, sc := range w.children[i].scs {
				if sc.shutdowns > 0 && !sc.shutDelivered {
					w.m.effect = role + "-subconn-shutdown-delivered"
					sc.shutDelivered = true
					sc.listener(balancer.SubConnState{ConnectivityState: connectivity.Shutdown})
					return true
				}
			}
			return false
		}})
	}
	// Re-entrant histories: while the policy's NewSubConn call is in flight inside
	// the channel (the fake channel has created the subchannel but not returned
	// yet), one more event happens - the calling policy may be closed or
	// superseded DURING the call.
	report := func(target string, s connectivity.State) c33Nested {
		return c33Nested{target + ".UpdateState(" + c33St(s) + ")", func(w *c33World) func() {
			j := w.roleIdx(target)
			if j < 0 || j >= len(w.children) {
				return nil
			}
			return func() { w.children[j].report(s) }
		}}
	}
	switchA := c33Nested{"switchTo(A)", func(w *c33World) func() {
		return func() { w.doSwitch(c33BuilderA, false, nil) }
	}}
	closing := c33Nested{"close", func(w *c33World) func() {
		if w.m.closed {
			return nil
		}
		return func() { w.m.close(); w.gsb.Close() }
	}}
	for _, n := range []c33Nested{report("pend", connectivity.Ready), report("pend", connectivity.TransientFailure), report("cur", connectivity.TransientFailure), switchA, closing} {
		n := n
		ops = append(ops, c33NewSCOp("cur", n.label, &n))
	}
	for _, n := range []c33Nested{report("cur", connectivity.TransientFailure), report("pend", connectivity.Ready), switchA, closing} {
		n := n
		ops = append(ops, c33NewSCOp("pend", n.label, &n))
	}
	return ops
}

func c33Run(t *testing.T, ops []c33Op, maxSC int, hist []int) (out seqx.Outcome) {
	synctest.Test(t, func(*testing.T) {
		w := c33NewWorld(maxSC)
		defer func() {
			if p := recover(); p != nil {
				w.fail("panic", "panic: %v", p)
				out = seqx.Outcome{Key: "panic " + fmt.Sprint(hist), Terminal: true, Fails: w.fails, Obs: "panic"}
			}
			// release everything the balancer may still own
			func() {
				defer func() { recover() }()
				w.gsb.Close()
			}()
			synctest.Wait()
		}()
		for i, h := range hist {
			w.updates = nil
			w.m.expect = nil
			w.m.effect = ""
			if !ops[h].do(w) {
				if i == len(hist)-1 {
					out = seqx.Outcome{Skip: true}
					return
				}
				w.fail("harness-nondeterminism", "event %s inapplicable in the middle of a history", ops[h].name)
			}
			synctest.Wait() // the old policy is closed on a goroutine: run to quiescence
			w.check(ops[h].name)
		}
		if len(hist) == 0 {
			w.check("start")
		}
		out = seqx.Outcome{Key: w.key(), Fails: w.fails, Obs: w.m.effect}
	})
	return out
}

func TestVerif_C33_GracefulSwitch(t *testing.T) {
	const P = "C33"
	r := vk.Start(t, "c33_gracefulswitch", "model_checking", P)
	defer r.Finish()
	r.Rule(P, "breadth-first over ALL event histories up to the depth bound, each applied to a fresh real gracefulswitch.Balancer on a fake recording channel inside a synctest bubble (run to quiescence after every event, so the asynchronous close of the old policy has happened). Alphabet: SwitchTo(A) / SwitchTo(B) (always a new policy instance, also 'A again'), resolver update carrying a gracefulswitch config for A / B (switches only when the newest policy has another name), plain resolver update, ExitIdle, Close; and for each of the roles current / pending / most-recently-closed policy: UpdateState(CONNECTING|READY|TRANSIENT_FAILURE|IDLE) with a fresh tagged picker, NewSubConn, a READY update delivered to one of its subchannels' listener, the policy shutting one of its subchannels down, the SHUTDOWN update for it; plus re-entrant variants of NewSubConn for the current / pending policy in which, while the call is in flight inside the channel (subchannel created, call not yet returned), one more event happens: the other policy reports READY / TRANSIENT_FAILURE, the current policy leaves READY, SwitchTo(A), Close - so the caller can be closed or superseded DURING its call. Policy A is passive; policy B additionally calls back inline like real policies (NewSubConn + CONNECTING from Build, READY from inside the subchannel listener, CONNECTING from ExitIdle when IDLE). After every event the real balancer is compared with the reference current/pending machine: exact list of updates that reached the channel, which policies are closed, which subchannels are shut down, who is current/pending. A state = reference machine + private fields (balancerCurrent/balancerPending identity, lastState, subconn maps, closed) by role; distinct states are the non-trivial cases")
	r.Assume(P, "events are delivered one at a time (calls into the balancer are serialized by the channel); concurrency between a policy's UpdateState and channel calls is not explored here")
	r.Assume(P, "a policy that has not reported yet counts as CONNECTING, and its state as seen by the channel is CONNECTING with a picker belonging to no policy; the switch decision of the statement is evaluated whenever the old or the new policy reports a state")

	balancer.Register(c33BuilderA)
	balancer.Register(c33BuilderB)
	parse := func(name string) *lbConfig {
		c, err := ParseConfig([]byte(`[{"` + name + `":{}}]`))
		if err != nil {
			r.EngineError("ParseConfig(%s): %v", name, err)
			return &lbConfig{childBuilder: balancer.Get(name)}
		}
		return c.(*lbConfig)
	}
	ops := c33Ops(parse(c33NameA), parse(c33NameB))
	names := make([]string, len(ops))
	for i, o := range ops {
		names[i] = o.name
	}
	maxSC := 2
	r.Set(P, "max_subconns_per_policy", maxSC)
	seqx.BFS(r, []string{P}, seqx.Config{
		Name: "gsb", Ops: names, MaxDepth: r.Pick(7, 24), Parallel: 1, // sequential + GOMAXPROCS=1: see the note on the go1.25.0 WaitGroup/bubble bookkeeping in claims.json
		Congruence: r.Thorough(), CongruenceMax: 1000, MinStates: 100,
		Run: func(hist []int) seqx.Outcome { return c33Run(t, ops, maxSC, hist) },
	})
}
