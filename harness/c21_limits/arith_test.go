//go:build verif

package grpc

// C21 (leg A, in-package arithmetic): the effective client message-size limits
// are the smaller of the service-config limit and the dial/call option limit,
// or the default when neither is set; on the server they are the server
// options.
//
// Three parts, all calling the real code:
//  1. getMaxSize on every pair of {unset,0,3,4,5,MaxInt32} x both defaults;
//  2. the whole assembly: a real ClientConn (NewClient) with the service config
//     given as JSON (default service config or manual resolver; method-level or
//     service-level entry), dial-time default call options, per-call options;
//     cc.NewStream runs the real newClientStream/newClientStreamWithParams up to
//     the point right after the limits are assembled, where a spy CallOption
//     (which captured the *callInfo) makes it fail on an unregistered
//     compressor name - no transport is needed;
//  3. NewServer with MaxRecvMsgSize/MaxSendMsgSize/MaxMsgSize.
// Oracle: min() written from the statement.

import (
	"context"
	"errors"
	"fmt"
	"math"
	"net"
	"strings"
	"testing"
	"time"

	"google.golang.org/grpc/codes"
	"google.golang.org/grpc/credentials/insecure"
	"google.golang.org/grpc/internal/verif/vk"
	"google.golang.org/grpc/resolver"
	"google.golang.org/grpc/resolver/manual"
	"google.golang.org/grpc/status"
)

const (
	c21P           = "C21"
	c21DefaultRecv = 4 * 1024 * 1024 // documented default client/server receive limit
	c21DefaultSend = math.MaxInt32   // documented default send limit
	c21BadComp     = "c21-no-such-compressor"
)

// c21Vals is the value domain of every limit source; nil = not configured.
func c21Vals() []*int {
	mk := func(v int) *int { return &v }
	return []*int{nil, mk(0), mk(3), mk(4), mk(5), mk(math.MaxInt32)}
}

func c21Str(p *int) string {
	if p == nil {
		return "unset"
	}
	return fmt.Sprint(*p)
}

// c21Want is the statement: option limit = per-call option if given, else the
// dial-time default call option; effective = min(service config, option), or
// whichever is set, or the default.
func c21Want(sc, dial, call *int, def int) (want int, decidedBy string) {
	opt, optName := dial, "dial"
	if call != nil {
		opt, optName = call, "call"
	}
	switch {
	case sc == nil && opt == nil:
		return def, "default"
	case sc == nil:
		return *opt, optName
	case opt == nil:
		return *sc, "service-config"
	case *sc < *opt:
		return *sc, "service-config<" + optName
	case *opt < *sc:
		return *opt, optName + "<service-config"
	}
	return *sc, "tie"
}

// c21Spy captures the callInfo of the RPC and makes stream creation stop right
// after the limits were assembled (unregistered compressor => codes.Internal).
type c21Spy struct {
	EmptyCallOption
	got **callInfo
}

func (o c21Spy) before(c *callInfo) error {
	*o.got = c
	c.compressorName = c21BadComp
	return nil
}

type c21Conn struct {
	scSend, scRecv     *int
	dialSend, dialRecv *int
	where              string // "method" | "service": which service-config entry carries the limits
	source             string // "default" (WithDefaultServiceConfig) | "resolver" (manual resolver state)
	flavour            string // "calloption" | "WithMaxMsgSize" (deprecated dial option, receive only)
}

func (c c21Conn) json() string {
	name := `{"service":"c21.Svc","method":"M"}`
	if c.where == "service" {
		name = `{"service":"c21.Svc"}`
	}
	var f []string
	if c.scSend != nil {
		f = append(f, fmt.Sprintf(`"maxRequestMessageBytes":%d`, *c.scSend))
	}
	if c.scRecv != nil {
		f = append(f, fmt.Sprintf(`"maxResponseMessageBytes":%d`, *c.scRecv))
	}
	f = append([]string{`"name":[` + name + `]`}, f...)
	// a decoy entry for another method must not influence the result
	return `{"methodConfig":[{"name":[{"service":"c21.Svc","method":"Other"}],"maxRequestMessageBytes":1,"maxResponseMessageBytes":1},{` + strings.Join(f, ",") + `}]}`
}

func (c c21Conn) dial() (*ClientConn, error) {
	opts := []DialOption{
		WithTransportCredentials(insecure.NewCredentials()),
		WithContextDialer(func(context.Context, string) (net.Conn, error) { return nil, errors.New("c21: no network") }),
	}
	var dco []CallOption
	if c.dialSend != nil {
		dco = append(dco, MaxCallSendMsgSize(*c.dialSend))
	}
	if c.dialRecv != nil {
		if c.flavour == "WithMaxMsgSize" {
			opts = append(opts, WithMaxMsgSize(*c.dialRecv))
		} else {
			dco = append(dco, MaxCallRecvMsgSize(*c.dialRecv))
		}
	}
	if len(dco) > 0 {
		opts = append(opts, WithDefaultCallOptions(dco...))
	}
	target := "passthrough:///c21"
	if c.source == "resolver" {
		mr := manual.NewBuilderWithScheme("c21res")
		mr.InitialState(resolver.State{Addresses: []resolver.Address{{Addr: "c21"}}, ServiceConfig: parseServiceConfig(c.json(), defaultMaxCallAttempts)})
		opts = append(opts, WithResolvers(mr))
		target = "c21res:///c21"
	} else {
		opts = append(opts, WithDefaultServiceConfig(c.json()))
	}
	return NewClient(target, opts...)
}

// c21Effective runs the real stream-creation path and returns the assembled limits.
func c21Effective(cc *ClientConn, callSend, callRecv *int) (send, recv int, err error) {
	var ci *callInfo
	opts := []CallOption{}
	if callSend != nil {
		opts = append(opts, MaxCallSendMsgSize(*callSend))
	}
	if callRecv != nil {
		opts = append(opts, MaxCallRecvMsgSize(*callRecv))
	}
	opts = append(opts, c21Spy{got: &ci})
	ctx, cancel := context.WithTimeout(context.Background(), 60*time.Second) // watchdog only
	defer cancel()
	_, e := cc.NewStream(ctx, &StreamDesc{ClientStreams: true, ServerStreams: true}, "/c21.Svc/M", opts...)
	if e == nil || status.Code(e) != codes.Internal || !strings.Contains(e.Error(), c21BadComp) {
		return 0, 0, fmt.Errorf("stream creation did not stop at the spy: err=%v", e)
	}
	if ci == nil || ci.maxSendMessageSize == nil || ci.maxReceiveMessageSize == nil {
		return 0, 0, fmt.Errorf("limits not assembled before the compressor lookup (callInfo=%v)", ci)
	}
	return *ci.maxSendMessageSize, *ci.maxReceiveMessageSize, nil
}

type c21Replay struct {
	Part                                                   string
	ScSend, ScRecv, DialSend, DialRecv, CallSend, CallRecv *int
	Where, Source, Flavour                                 string
}

func c21Key(dir string, sc, dial, call *int, c c21Conn) string {
	return fmt.Sprintf("assembly %s sc=%s dial=%s call=%s where=%s source=%s flavour=%s", dir, c21Str(sc), c21Str(dial), c21Str(call), c.where, c.source, c.flavour)
}

// c21CheckConn checks every per-call combination on one ClientConn.
func c21CheckConn(r *vk.Run, c c21Conn, calls [][2]*int) (evals, nontriv int64, engineErr error) {
	cc, err := c.dial()
	if err != nil {
		return 0, 0, fmt.Errorf("NewClient(%+v): %v", c, err)
	}
	defer cc.Close()
	for _, call := range calls {
		callSend, callRecv := call[0], call[1]
		send, recv, err := c21Effective(cc, callSend, callRecv)
		if err != nil {
			return evals, nontriv, err
		}
		rp := c21Replay{"assembly", c.scSend, c.scRecv, c.dialSend, c.dialRecv, callSend, callRecv, c.where, c.source, c.flavour}
		wantSend, bySend := c21Want(c.scSend, c.dialSend, callSend, c21DefaultSend)
		wantRecv, byRecv := c21Want(c.scRecv, c.dialRecv, callRecv, c21DefaultRecv)
		evals += 2
		r.Outcome(c21P, "send:"+bySend)
		r.Outcome(c21P, "recv:"+byRecv)
		if strings.Contains(bySend, "<") || callSend != nil && c.dialSend != nil && *callSend != *c.dialSend {
			nontriv++
		}
		if strings.Contains(byRecv, "<") || callRecv != nil && c.dialRecv != nil && *callRecv != *c.dialRecv {
			nontriv++
		}
		if send != wantSend {
			r.Violation(c21P, c21Key("send", c.scSend, c.dialSend, callSend, c),
				fmt.Sprintf("effective send limit %d, statement says %d (decided by %s): service config %s, dial default option %s, per-call option %s", send, wantSend, bySend, c21Str(c.scSend), c21Str(c.dialSend), c21Str(callSend)), rp)
		}
		if recv != wantRecv {
			r.Violation(c21P, c21Key("recv", c.scRecv, c.dialRecv, callRecv, c),
				fmt.Sprintf("effective receive limit %d, statement says %d (decided by %s): service config %s, dial default option %s, per-call option %s", recv, wantRecv, byRecv, c21Str(c.scRecv), c21Str(c.dialRecv), c21Str(callRecv)), rp)
		}
	}
	return evals, nontriv, nil
}

func c21CheckGetMaxSize(r *vk.Run) (evals, nontriv int64) {
	for _, def := range []int{c21DefaultRecv, c21DefaultSend} {
		for _, mc := range c21Vals() {
			for _, dopt := range c21Vals() {
				var mcCopy, doptCopy *int
				if mc != nil {
					v := *mc
					mcCopy = &v
				}
				if dopt != nil {
					v := *dopt
					doptCopy = &v
				}
				got := getMaxSize(mcCopy, doptCopy, def)
				want, by := c21Want(mc, dopt, nil, def)
				evals++
				if strings.Contains(by, "<") {
					nontriv++
				}
				key := fmt.Sprintf("getMaxSize mc=%s dopt=%s def=%d", c21Str(mc), c21Str(dopt), def)
				switch {
				case got == nil:
					r.Violation(c21P, key, "getMaxSize returned nil", c21Replay{Part: "getMaxSize"})
				case *got != want:
					r.Violation(c21P, key, fmt.Sprintf("getMaxSize(%s, %s, %d) = %d, statement says %d", c21Str(mc), c21Str(dopt), def, *got, want), c21Replay{Part: "getMaxSize"})
				case mc != nil && *mcCopy != *mc || dopt != nil && *doptCopy != *dopt:
					r.Violation(c21P, key+" mutates", "getMaxSize modified one of its inputs", c21Replay{Part: "getMaxSize"})
				}
			}
		}
	}
	return
}

func c21CheckServer(r *vk.Run) (evals, nontriv int64) {
	for _, recv := range c21Vals() {
		for _, send := range c21Vals() {
			for _, flavour := range []string{"MaxRecvMsgSize", "MaxMsgSize"} {
				if recv == nil && flavour == "MaxMsgSize" {
					continue
				}
				var opts []ServerOption
				if recv != nil {
					if flavour == "MaxMsgSize" {
						opts = append(opts, MaxMsgSize(*recv))
					} else {
						opts = append(opts, MaxRecvMsgSize(*recv))
					}
				}
				if send != nil {
					opts = append(opts, MaxSendMsgSize(*send))
				}
				s := NewServer(opts...)
				gotRecv, gotSend := s.opts.maxReceiveMessageSize, s.opts.maxSendMessageSize
				s.Stop()
				wantRecv, _ := c21Want(nil, recv, nil, c21DefaultRecv)
				wantSend, _ := c21Want(nil, send, nil, c21DefaultSend)
				evals++
				if recv != nil || send != nil {
					nontriv++
				}
				if gotRecv != wantRecv || gotSend != wantSend {
					r.Violation(c21P, fmt.Sprintf("server %s recv=%s send=%s", flavour, c21Str(recv), c21Str(send)),
						fmt.Sprintf("server limits recv=%d send=%d, statement says recv=%d send=%d", gotRecv, gotSend, wantRecv, wantSend), c21Replay{Part: "server"})
				}
			}
		}
	}
	return
}

func TestVerif_C21_LimitsArith(t *testing.T) {
	const P = c21P
	r := vk.Start(t, "c21_limits_arith", "exploration", P)
	defer r.Finish()
	r.Rule(P, "every (service-config limit, dial-time default call option, per-call option) in {unset,0,3,4,5,MaxInt32}^3, independently for send and receive (6^6 combinations per connection variant), on a real ClientConn whose service config is parsed from JSON (method-level / service-level entry; default service config / resolver-provided; deprecated WithMaxMsgSize flavour), plus getMaxSize on all pairs and NewServer options on all pairs; non-trivial = the service config and an option are both set to different values (min decides) or a per-call option overrides a dial default")
	vals := c21Vals()

	if r.ReplayFile() != "" {
		var rp c21Replay
		if err := r.LoadReplay(&rp); err != nil {
			r.EngineError("replay: %v", err)
			return
		}
		switch rp.Part {
		case "assembly":
			c := c21Conn{rp.ScSend, rp.ScRecv, rp.DialSend, rp.DialRecv, rp.Where, rp.Source, rp.Flavour}
			e, _, err := c21CheckConn(r, c, [][2]*int{{rp.CallSend, rp.CallRecv}})
			if err != nil {
				r.EngineError("replay: %v", err)
			}
			r.Eval(P, e)
		case "server":
			e, _ := c21CheckServer(r)
			r.Eval(P, e)
		default:
			e, _ := c21CheckGetMaxSize(r)
			r.Eval(P, e)
		}
		return
	}

	e, n := c21CheckGetMaxSize(r)
	r.Eval(P, e)
	r.NontrivialN(P, n)
	r.Set(P, "getMaxSize_cases", e)
	e, n = c21CheckServer(r)
	r.Eval(P, e)
	r.NontrivialN(P, n)
	r.Set(P, "server_option_cases", e)

	var calls [][2]*int
	for _, cs := range vals {
		for _, cr := range vals {
			calls = append(calls, [2]*int{cs, cr})
		}
	}
	type variant struct{ where, source, flavour string }
	variants := []variant{{"method", "default", "calloption"}, {"service", "default", "calloption"}, {"method", "resolver", "calloption"}, {"method", "default", "WithMaxMsgSize"}}
	if r.Thorough() {
		variants = append(variants, variant{"service", "resolver", "calloption"}, variant{"service", "resolver", "WithMaxMsgSize"}, variant{"service", "default", "WithMaxMsgSize"}, variant{"method", "resolver", "WithMaxMsgSize"})
	}
	var conns, assembled, nontriv int64
	i := 0
	for _, v := range variants {
		for _, scSend := range vals {
			for _, scRecv := range vals {
				for _, dialSend := range vals {
					for _, dialRecv := range vals {
						i++
						if !r.Mine(i) {
							continue
						}
						if v.flavour == "WithMaxMsgSize" && dialRecv == nil {
							continue // identical to the calloption flavour
						}
						c := c21Conn{scSend, scRecv, dialSend, dialRecv, v.where, v.source, v.flavour}
						e, n, err := c21CheckConn(r, c, calls)
						if err != nil {
							r.EngineError("%v", err)
							return
						}
						conns++
						assembled += e
						nontriv += n
					}
				}
			}
		}
		if r.NViolations(P) >= 20 {
			r.Cap(P, "stopped after 20 distinct violations")
			break
		}
	}
	r.Eval(P, assembled)
	r.NontrivialN(P, nontriv)
	r.Set(P, "client_conns_built", conns)
	r.Set(P, "assembled_limits_checked", assembled)
	r.Sample(P, map[string]any{"service_config": `{"methodConfig":[{"name":[{"service":"c21.Svc","method":"M"}],"maxResponseMessageBytes":4}]}`, "dial": "WithDefaultCallOptions(MaxCallRecvMsgSize(5))", "call": "MaxCallRecvMsgSize(3)", "expected_effective_recv": 3})
	r.Sample(P, map[string]any{"service_config": "maxRequestMessageBytes:3", "dial": "MaxCallSendMsgSize(MaxInt32)", "call": "unset", "expected_effective_send": 3})
	r.Sample(P, map[string]any{"service_config": "unset", "dial": "unset", "call": "unset", "expected": "recv 4194304, send 2147483647"})
	r.Assume(P, "a per-call option replaces the dial-time default call option of the same kind (WithDefaultCallOptions documents defaults); the statement's 'dial/call option limit' is that resulting option")
	r.Assume(P, "this leg checks the assembled numbers only; that SendMsg/RecvMsg enforce them is the E4 leg's and C06's subject")
}
