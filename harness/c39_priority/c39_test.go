//go:build verif

package priority

// C39 — priority failover uses the best available priority.
//
// Engine E2 (seqx): breadth-first over ALL event histories up to the depth bound.
// Every history is applied to a FRESH REAL priorityBalancer built through its
// builder inside a testing/synctest bubble (real balancergroup, real
// gracefulswitch wrappers, real init timers and sub-balancer cache timers on
// virtual time) next to a reference model (c39Model) written from the property
// statement and gRFC A56. After every event the bubble is run to quiescence
// (synctest.Wait) and the real balancer's observable output (state+picker sent to
// the parent ClientConn, child policies built/closed) and its private selection
// state (childInUse, child.started, child.initTimer) are compared with the model.

import (
	"fmt"
	"sort"
	"strings"
	"sync"
	"sync/atomic"
	"testing"
	"testing/synctest"
	"time"

	"google.golang.org/grpc/balancer"
	"google.golang.org/grpc/connectivity"
	internalserviceconfig "google.golang.org/grpc/internal/serviceconfig"
	"google.golang.org/grpc/internal/verif/seqx"
	"google.golang.org/grpc/internal/verif/vk"
	"google.golang.org/grpc/resolver"
	"google.golang.org/grpc/serviceconfig"
)

const c39StubName = "c39_stub_child_policy"

func init() { balancer.Register(c39StubBuilder{}) }

// ------------------------------------------------------------ environment ----

// c39World is the per-history environment: the recording parent ClientConn and
// the registry of stub child policy instances.
type c39World struct {
	mu       sync.Mutex
	parent   *balancer.State // last state pushed to the parent ClientConn
	parentN  int
	live     map[string]*c39Child // priority child name -> live (built, not closed) stub instance
	built    int
	closed   int
	seq      int
	anomaly  []string
	resolveN int
}

type c39CC struct {
	balancer.ClientConn // nil: any method the harness does not expect panics
	w                   *c39World
}

func (c *c39CC) UpdateState(s balancer.State) {
	c.w.mu.Lock()
	c.w.parent = &s
	c.w.parentN++
	c.w.mu.Unlock()
}
func (c *c39CC) ResolveNow(resolver.ResolveNowOptions) {
	c.w.mu.Lock()
	c.w.resolveN++
	c.w.mu.Unlock()
}
func (c *c39CC) Target() string { return "c39" }

// c39ChildCfg is the child policy config: it tells a stub instance which
// priority child it is and which world it reports to.
type c39ChildCfg struct {
	serviceconfig.LoadBalancingConfig
	w    *c39World
	name string
}

type c39StubBuilder struct{}

func (c39StubBuilder) Name() string { return c39StubName }
func (c39StubBuilder) Build(cc balancer.ClientConn, _ balancer.BuildOptions) balancer.Balancer {
	return &c39Child{cc: cc}
}

// c39Picker is a tagged picker: identity (pointer) tells which child update it
// came from.
type c39Picker struct{ tag string }

func (p *c39Picker) Pick(balancer.PickInfo) (balancer.PickResult, error) {
	return balancer.PickResult{}, fmt.Errorf("c39 picker %s", p.tag)
}

// c39Child is one stub child policy instance. It does nothing on its own; the
// explorer makes it report states.
type c39Child struct {
	cc balancer.ClientConn

	// guarded by w.mu once bound
	w         *c39World
	name      string
	isClosed  bool
	exitIdles int
	updates   int
	reported  bool
	state     connectivity.State
	picker    *c39Picker
}

func (c *c39Child) UpdateClientConnState(s balancer.ClientConnState) error {
	cfg, ok := s.BalancerConfig.(*c39ChildCfg)
	if !ok {
		return fmt.Errorf("c39 stub: unexpected config %T", s.BalancerConfig)
	}
	w := cfg.w
	w.mu.Lock()
	defer w.mu.Unlock()
	if c.w == nil {
		c.w, c.name = w, cfg.name
		w.built++
		if old := w.live[c.name]; old != nil && old != c {
			w.anomaly = append(w.anomaly, "two live child policy instances for "+c.name)
		}
		w.live[c.name] = c
	} else if c.name != cfg.name {
		w.anomaly = append(w.anomaly, "instance of "+c.name+" received the config of "+cfg.name)
	}
	if c.isClosed {
		w.anomaly = append(w.anomaly, "UpdateClientConnState on closed child policy "+c.name)
	}
	c.updates++
	return nil
}
func (c *c39Child) ResolverError(error)                                        {}
func (c *c39Child) UpdateSubConnState(balancer.SubConn, balancer.SubConnState) {}
func (c *c39Child) ExitIdle() {
	if c.w == nil {
		return
	}
	c.w.mu.Lock()
	c.exitIdles++
	c.w.mu.Unlock()
}
func (c *c39Child) Close() {
	if c.w == nil {
		return
	}
	c.w.mu.Lock()
	if c.isClosed {
		c.w.anomaly = append(c.w.anomaly, "child policy "+c.name+" closed twice")
	}
	c.isClosed = true
	c.w.closed++
	if c.w.live[c.name] == c {
		delete(c.w.live, c.name)
	}
	c.w.mu.Unlock()
}

// ------------------------------------------------------------------ model ----
//
// Reference model, from the statement and gRFC A56:
//  * selection: scan priorities from the highest; the first child that is not
//    yet started (all higher ones have failed or timed out, so it may now be
//    started), or READY/IDLE, or still within its initial connection timeout, is
//    the child in use; otherwise the lowest priority is.
//  * the init (failover) timer runs from the moment a child is started, is
//    cancelled when the child reports READY, IDLE or TRANSIENT_FAILURE and is
//    started again when the child goes to CONNECTING from a state other than
//    CONNECTING unless it has reported TRANSIENT_FAILURE more recently than
//    READY/IDLE (A56 + A42).
//  * a lower priority runs only while every higher priority has failed or timed
//    out: whenever a child is selected every lower priority is deactivated.
//    A deactivated child policy is retained for 15 minutes (A56 "child lifetime
//    management"), keeps its last reported state and is re-used when its
//    priority is started again; a child removed from the config while active is
//    closed at once.
//  * the parent sees exactly the state+picker of the child in use; TF when the
//    priority list is empty.

type c39MChild struct {
	started    bool
	state      connectivity.State
	picker     *c39Picker    // nil: the built-in "no subconn available" picker
	timer      time.Duration // absolute deadline, <0 none
	timerID    int           // identity of the current init timer (valid while timer >= 0)
	reportedTF bool
}

// c39MInst is the model's view of a child policy object (exists from first
// start until closed).
type c39MInst struct {
	reported bool
	state    connectivity.State
	picker   *c39Picker
	cache    time.Duration // absolute close deadline while deactivated, <0 while active
}

type c39Model struct {
	initTimeout, cacheTimeout time.Duration
	now                       time.Duration
	configured                bool
	prios                     []string
	children                  map[string]*c39MChild
	insts                     map[string]*c39MInst
	inUse                     string
	closed                    bool
	// manual: init timers are owned by the explorer (timer-race scenario): they
	// never expire by the passage of time; fire(pN) delivers the expiry of pN's
	// current timer, runTimerCallback(pN) lets the balancer process the oldest
	// delivered expiry of pN. An expiry only counts if, when it is processed,
	// its timer is still the child's CURRENT init timer (not cancelled by
	// READY/IDLE/TRANSIENT_FAILURE, a stop or a restart in between).
	manual   bool
	timerSeq int
	inflight map[string][]int // per child name: ids of timers whose expiry was delivered but not yet processed
}

// c39Forever is the deadline of an explorer-owned timer.
const c39Forever = time.Duration(1) << 60

func (m *c39Model) newTimer(c *c39MChild) {
	m.timerSeq++
	c.timerID = m.timerSeq
	c.timer = m.now + m.initTimeout
	if m.manual {
		c.timer = c39Forever
	}
}

// currentInflight: the expiry of c's current timer has been delivered already.
func (m *c39Model) currentInflight(name string) bool {
	c := m.children[name]
	if c == nil || c.timer < 0 {
		return false
	}
	for _, id := range m.inflight[name] {
		if id == c.timerID {
			return true
		}
	}
	return false
}

func (m *c39Model) canFire(name string) bool {
	c := m.children[name]
	return c != nil && c.started && c.timer >= 0 && !m.currentInflight(name)
}

func (m *c39Model) fire(name string) {
	m.inflight[name] = append(m.inflight[name], m.children[name].timerID)
}

func (m *c39Model) runCallback(name string) {
	id := m.inflight[name][0]
	m.inflight[name] = m.inflight[name][1:]
	if len(m.inflight[name]) == 0 {
		delete(m.inflight, name)
	}
	if c := m.children[name]; c != nil && c.started && c.timer >= 0 && c.timerID == id {
		c.timer = -1 // the child's CURRENT init timeout has elapsed
		m.choose()
	}
}

func c39NewModel(initT, cacheT time.Duration) *c39Model {
	return &c39Model{initTimeout: initT, cacheTimeout: cacheT, children: map[string]*c39MChild{}, insts: map[string]*c39MInst{}, inflight: map[string][]int{}}
}

func c39Sorted[V any](m map[string]V) []string {
	ks := make([]string, 0, len(m))
	for k := range m {
		ks = append(ks, k)
	}
	sort.Strings(ks)
	return ks
}

func (m *c39Model) applyReport(name string, s connectivity.State, p *c39Picker) {
	c := m.children[name]
	if c == nil || !c.started {
		return
	}
	old := c.state
	c.state, c.picker = s, p
	switch s {
	case connectivity.Ready, connectivity.Idle:
		c.reportedTF = false
		c.timer = -1
	case connectivity.TransientFailure:
		c.reportedTF = true
		c.timer = -1
	case connectivity.Connecting:
		if !c.reportedTF && old != connectivity.Connecting && c.timer < 0 {
			m.newTimer(c)
		}
	}
}

func (m *c39Model) start(name string) {
	c := m.children[name]
	c.started, c.state, c.picker, c.reportedTF = true, connectivity.Connecting, nil, false
	m.newTimer(c)
	in := m.insts[name]
	if in == nil {
		m.insts[name] = &c39MInst{cache: -1}
		return
	}
	in.cache = -1
	if in.reported { // a retained child policy: its last state counts again
		m.applyReport(name, in.state, in.picker)
	}
}

func (m *c39Model) deactivate(name string) {
	c := m.children[name]
	if !c.started {
		return
	}
	*c = c39MChild{timer: -1, state: connectivity.Connecting}
	if in := m.insts[name]; in != nil {
		in.cache = m.now + m.cacheTimeout
	}
}

func (m *c39Model) choose() {
	for {
		if len(m.prios) == 0 {
			m.inUse = ""
			return
		}
		sel := len(m.prios) - 1
		for i, name := range m.prios {
			c := m.children[name]
			if !c.started || c.state == connectivity.Ready || c.state == connectivity.Idle || c.timer >= 0 {
				sel = i
				break
			}
		}
		name := m.prios[sel]
		m.inUse = name
		for _, low := range m.prios[sel+1:] {
			m.deactivate(low)
		}
		if c := m.children[name]; !c.started {
			m.start(name)
			continue // a retained policy's state may already be a failure
		}
		return
	}
}

func (m *c39Model) config(prios []string) {
	m.configured = true
	want := map[string]bool{}
	for _, p := range prios {
		want[p] = true
	}
	for _, name := range c39Sorted(m.children) {
		if !want[name] {
			if m.children[name].started {
				delete(m.insts, name) // active child removed from the config: closed at once
			}
			delete(m.children, name)
		}
	}
	for _, p := range prios {
		if m.children[p] == nil {
			m.children[p] = &c39MChild{timer: -1, state: connectivity.Connecting}
		}
	}
	m.prios = append([]string(nil), prios...)
	m.choose()
}

func (m *c39Model) report(name string, s connectivity.State, p *c39Picker) {
	in := m.insts[name]
	in.reported, in.state, in.picker = true, s, p
	m.applyReport(name, s, p)
	if m.configured {
		m.choose()
	}
}

func (m *c39Model) advance(d time.Duration) {
	end := m.now + d
	for {
		bestT, bestName, isInit := time.Duration(-1), "", false
		for _, name := range c39Sorted(m.children) {
			if t := m.children[name].timer; t >= 0 && t <= end && (bestT < 0 || t < bestT) {
				bestT, bestName, isInit = t, name, true
			}
		}
		for _, name := range c39Sorted(m.insts) {
			if t := m.insts[name].cache; t >= 0 && t <= end && (bestT < 0 || t < bestT) {
				bestT, bestName, isInit = t, name, false
			}
		}
		if bestT < 0 {
			break
		}
		m.now = bestT
		if isInit {
			m.children[bestName].timer = -1 // timed out
			m.choose()
		} else {
			delete(m.insts, bestName) // retention over: the child policy is closed
		}
	}
	m.now = end
}

func (m *c39Model) close() {
	m.closed = true
	m.insts = map[string]*c39MInst{}
}

// failedOrTimedOut: the child is running and neither READY/IDLE nor within its
// initial connection timeout.
func (m *c39Model) failedOrTimedOut(name string) bool {
	c := m.children[name]
	return c != nil && c.started && c.state != connectivity.Ready && c.state != connectivity.Idle && c.timer < 0
}

// ------------------------------------------------- explorer-owned init timers ----
//
// In the timer-race scenario the harness owns the init timers through the
// package's timeAfterFunc test hook: a timer never fires on its own; fire(pN)
// delivers its expiry (from then on Stop() on it reports false, as for a real
// fired time.Timer, and the captured callback is "in flight"), and
// runTimerCallback(pN) runs the callback body as a separate, later event. So
// child reports, config updates etc. can be interleaved between the expiry of
// a timer and the execution of its callback (which, in production, first has
// to win the balancer mutex).

type c39TimerEntry struct {
	child string
	tw    *timerWrapper
	f     func()
	dummy *time.Timer
	fired bool
	ran   bool
}

type c39TimerEnv struct {
	b       *priorityBalancer
	mu      sync.Mutex
	entries []*c39TimerEntry
}

// c39CurEnv is non-nil only while a history of the (sequential, Parallel=1)
// timer-race scenario runs; otherwise the hook is the identity on time.AfterFunc.
var c39CurEnv atomic.Pointer[c39TimerEnv]

var c39HookOnce sync.Once

func c39InstallHook() {
	c39HookOnce.Do(func() {
		timeAfterFunc = func(d time.Duration, f func()) *time.Timer {
			env := c39CurEnv.Load()
			if env == nil {
				return time.AfterFunc(d, f)
			}
			// Called from childBalancer.startInitTimer with b.mu held by this
			// goroutine, right after cb.initTimer was set to a wrapper whose
			// timer field is still nil: that identifies the owner.
			e := &c39TimerEntry{f: f, dummy: time.AfterFunc(1000*time.Hour, func() {})}
			for name, c := range env.b.children {
				if c.initTimer != nil && c.initTimer.timer == nil {
					e.child, e.tw = name, c.initTimer
				}
			}
			env.mu.Lock()
			env.entries = append(env.entries, e)
			env.mu.Unlock()
			return e.dummy
		}
	})
}

// live returns the un-fired, un-stopped timer that is pN's current init timer.
func (env *c39TimerEnv) live(name string) *c39TimerEntry {
	env.b.mu.Lock()
	defer env.b.mu.Unlock()
	env.mu.Lock()
	defer env.mu.Unlock()
	c := env.b.children[name]
	for _, e := range env.entries {
		if e.child == name && !e.fired && !e.tw.stopped && c != nil && c.initTimer == e.tw {
			return e
		}
	}
	return nil
}

func (env *c39TimerEnv) oldestInflight(name string) *c39TimerEntry {
	env.mu.Lock()
	defer env.mu.Unlock()
	for _, e := range env.entries {
		if e.child == name && e.fired && !e.ran {
			return e
		}
	}
	return nil
}

// inflightKey: per child, for every delivered-but-unprocessed expiry whether its
// timer was stopped meanwhile (s) or is still the child's current timer (c) or
// neither (o).
func (env *c39TimerEnv) inflightKey() string {
	env.b.mu.Lock()
	defer env.b.mu.Unlock()
	env.mu.Lock()
	defer env.mu.Unlock()
	per := map[string]string{}
	for _, e := range env.entries {
		if e.fired && !e.ran {
			k := "o"
			if c := env.b.children[e.child]; e.tw.stopped {
				k = "s"
			} else if c != nil && c.initTimer == e.tw {
				k = "c"
			}
			per[e.child] += k
		}
	}
	var sb strings.Builder
	for _, n := range c39Sorted(per) {
		sb.WriteString(n + "=" + per[n] + ";")
	}
	return sb.String()
}

func (env *c39TimerEnv) stopAll() {
	env.mu.Lock()
	defer env.mu.Unlock()
	for _, e := range env.entries {
		e.dummy.Stop()
	}
}

// ------------------------------------------------------------- operations ----

type c39Op struct {
	name  string
	kind  string // cfg | child | adv | exitidle | close | fire | runcb
	prios []string
	child string
	state connectivity.State
	d     time.Duration
}

func c39AllLists(names []string) [][]string {
	var out [][]string
	var rec func(cur []string, used map[string]bool)
	rec = func(cur []string, used map[string]bool) {
		out = append(out, append([]string(nil), cur...))
		for _, n := range names {
			if !used[n] {
				used[n] = true
				rec(append(cur, n), used)
				used[n] = false
			}
		}
	}
	rec(nil, map[string]bool{})
	sort.SliceStable(out, func(i, j int) bool {
		if len(out[i]) != len(out[j]) {
			return len(out[i]) < len(out[j])
		}
		return strings.Join(out[i], ",") < strings.Join(out[j], ",")
	})
	return out
}

func c39Ops(lists [][]string, long bool) []c39Op {
	var ops []c39Op
	// simplest first: the natural full list, then the others
	ops = append(ops, c39Op{name: "cfg[p0,p1,p2]", kind: "cfg", prios: []string{"p0", "p1", "p2"}})
	for _, l := range lists {
		n := "cfg[" + strings.Join(l, ",") + "]"
		if n == ops[0].name {
			continue
		}
		ops = append(ops, c39Op{name: n, kind: "cfg", prios: l})
	}
	states := []connectivity.State{connectivity.TransientFailure, connectivity.Ready, connectivity.Connecting, connectivity.Idle}
	for _, ch := range []string{"p0", "p1", "p2"} {
		for _, s := range states {
			ops = append(ops, c39Op{name: ch + ":" + s.String(), kind: "child", child: ch, state: s})
		}
	}
	ops = append(ops, c39Op{name: "advance(initTimeout)", kind: "adv", d: DefaultPriorityInitTimeout})
	ops = append(ops, c39Op{name: "ExitIdle", kind: "exitidle"})
	if long {
		ops = append(ops, c39Op{name: "advance(subBalancerCloseTimeout)", kind: "adv", d: DefaultSubBalancerCloseTimeout})
	}
	ops = append(ops, c39Op{name: "Close", kind: "close"})
	return ops
}

// c39RaceOps is the alphabet of the timer-race scenario.
func c39RaceOps() []c39Op {
	var ops []c39Op
	for _, l := range [][]string{{"p0", "p1", "p2"}, {"p0", "p1"}, {"p1", "p0"}, {"p0"}, {"p2", "p0", "p1"}, {}} {
		ops = append(ops, c39Op{name: "cfg[" + strings.Join(l, ",") + "]", kind: "cfg", prios: l})
	}
	for _, ch := range []string{"p0", "p1", "p2"} {
		ops = append(ops, c39Op{name: "fire(" + ch + ")", kind: "fire", child: ch})
		ops = append(ops, c39Op{name: "runTimerCallback(" + ch + ")", kind: "runcb", child: ch})
	}
	states := []connectivity.State{connectivity.Ready, connectivity.Connecting, connectivity.TransientFailure, connectivity.Idle}
	for _, ch := range []string{"p0", "p1", "p2"} {
		for _, s := range states {
			ops = append(ops, c39Op{name: ch + ":" + s.String(), kind: "child", child: ch, state: s})
		}
	}
	ops = append(ops, c39Op{name: "Close", kind: "close"})
	return ops
}

func c39LBConfig(w *c39World, prios []string) *LBConfig {
	cfg := &LBConfig{Children: map[string]*Child{}, Priorities: append([]string(nil), prios...)}
	for _, p := range prios {
		cfg.Children[p] = &Child{Config: &internalserviceconfig.BalancerConfig{Name: c39StubName, Config: &c39ChildCfg{w: w, name: p}}}
	}
	return cfg
}

// ------------------------------------------------------------------ checks ----

type c39ImplChild struct {
	started, timer, reportedTF bool
	state                      connectivity.State
	picker                     balancer.Picker
}

type c39Impl struct {
	inUse   string
	prios   []string
	inhibit bool
	child   map[string]c39ImplChild
}

func c39Dump(b *priorityBalancer) c39Impl {
	b.mu.Lock()
	defer b.mu.Unlock()
	d := c39Impl{inUse: b.childInUse, prios: append([]string(nil), b.priorities...), inhibit: b.inhibitPickerUpdates, child: map[string]c39ImplChild{}}
	for name, c := range b.children {
		d.child[name] = c39ImplChild{started: c.started, timer: c.initTimer != nil, reportedTF: c.reportedTF, state: c.state.ConnectivityState, picker: c.state.Picker}
	}
	return d
}

func c39PickerName(p balancer.Picker) string {
	switch v := p.(type) {
	case nil:
		return "<nil>"
	case *c39Picker:
		if v == nil {
			return "<builtin>"
		}
		return v.tag
	default:
		_, err := p.Pick(balancer.PickInfo{})
		return fmt.Sprintf("<builtin:%v>", err)
	}
}

func c39SamePicker(got balancer.Picker, want *c39Picker) bool {
	if want != nil {
		g, ok := got.(*c39Picker)
		return ok && g == want
	}
	// the child has not reported yet: the built-in queueing picker
	if got == nil {
		return false
	}
	if _, ok := got.(*c39Picker); ok {
		return false
	}
	_, err := got.Pick(balancer.PickInfo{})
	return err == balancer.ErrNoSubConnAvailable
}

func c39Check(w *c39World, b *priorityBalancer, m *c39Model, preIdle map[*c39Child]int, lastKind string) []seqx.Fail {
	const P = "C39"
	var fails []seqx.Fail
	add := func(key, f string, a ...any) {
		fails = append(fails, seqx.Fail{Prop: P, Key: key, Desc: fmt.Sprintf(f, a...)})
	}
	d := c39Dump(b)
	w.mu.Lock()
	defer w.mu.Unlock()
	for _, a := range w.anomaly {
		add("child-policy-misuse", "%s", a)
	}
	if m.closed {
		if len(w.live) != 0 {
			add("child-open-after-close", "child policies still open after Close: %v", c39Sorted(w.live))
		}
		return fails
	}
	// (1) the child in use is the one the statement selects
	if d.inUse != m.inUse {
		add("wrong-child-in-use", "child in use is %q, the reference selection is %q (priorities %v)", d.inUse, m.inUse, m.prios)
	}
	// (2) the parent sees the state and picker of the child in use
	switch {
	case !m.configured:
		if w.parent != nil {
			add("parent-update-before-config", "state %v pushed to the parent before any config", w.parent.ConnectivityState)
		}
	case len(m.prios) == 0:
		if w.parent == nil || w.parent.ConnectivityState != connectivity.TransientFailure {
			add("empty-priorities-not-tf", "all priorities removed but the parent does not see TRANSIENT_FAILURE")
		} else if _, err := w.parent.Picker.Pick(balancer.PickInfo{}); err == nil {
			add("empty-priorities-not-tf", "all priorities removed but the parent picker does not fail RPCs")
		}
	default:
		c := m.children[m.inUse]
		if w.parent == nil {
			add("parent-picker-not-of-child-in-use", "nothing pushed to the parent although %q is in use", m.inUse)
		} else if w.parent.ConnectivityState != c.state || !c39SamePicker(w.parent.Picker, c.picker) {
			add("parent-picker-not-of-child-in-use", "parent sees (%v, picker %s) but child in use %q has (%v, picker %s)",
				w.parent.ConnectivityState, c39PickerName(w.parent.Picker), m.inUse, c.state, c39PickerName(c.picker))
		}
	}
	// (3) statement invariants on the REAL started flags
	inUseIdx := -1
	for i, n := range m.prios {
		if n == m.inUse {
			inUseIdx = i
		}
	}
	for i, n := range m.prios {
		ic, ok := d.child[n]
		if !ok {
			add("child-missing", "priority %q has no child record", n)
			continue
		}
		if !ic.started {
			continue
		}
		if inUseIdx >= 0 && i > inUseIdx && m.children[m.inUse].state == connectivity.Ready {
			add("lower-open-while-higher-ready", "priority %q (index %d) is still started although higher priority %q is READY", n, i, m.inUse)
		}
		for j := 0; j < i; j++ {
			if !m.failedOrTimedOut(m.prios[j]) {
				add("lower-started-before-higher-failed", "priority %q (index %d) is started although higher priority %q has neither failed nor timed out", n, i, m.prios[j])
				break
			}
		}
	}
	// (4) both ways: started set, per-child state and pending init timer equal the model
	if len(d.child) != len(m.children) {
		add("children-set", "real children %v, model %v", c39Sorted(d.child), c39Sorted(m.children))
	}
	for _, n := range c39Sorted(m.children) {
		mc, ic := m.children[n], d.child[n]
		if mc.started != ic.started {
			add("started-set-differs", "child %q started=%v, reference says %v", n, ic.started, mc.started)
			continue
		}
		if ic.state != mc.state {
			add("child-state-differs", "child %q recorded as %v, reference %v", n, ic.state, mc.state)
		}
		if ic.timer != (mc.timer >= 0) {
			add("init-timer-differs", "child %q init timer pending=%v, reference %v", n, ic.timer, mc.timer >= 0)
		}
	}
	// (5) child policy objects: built lazily, retained while deactivated, closed after the retention / on removal
	if got, want := strings.Join(c39Sorted(w.live), ","), strings.Join(c39Sorted(m.insts), ","); got != want {
		add("child-policy-lifetime", "open child policies {%s}, reference {%s}", got, want)
	}
	for n, inst := range w.live {
		mi := m.insts[n]
		if mi == nil {
			continue
		}
		if mi.reported != inst.reported || (mi.reported && (mi.state != inst.state || mi.picker != inst.picker)) {
			add("harness-bookkeeping", "instance view of %q diverged", n)
		}
	}
	// (6) ExitIdle reaches the child in use
	if lastKind == "exitidle" && m.inUse != "" {
		if inst := w.live[m.inUse]; inst == nil || inst.exitIdles != preIdle[inst]+1 {
			add("exitidle-not-forwarded", "ExitIdle did not reach the child policy in use %q exactly once", m.inUse)
		}
	}
	return fails
}

func c39St(s connectivity.State) string {
	switch s {
	case connectivity.Connecting:
		return "C"
	case connectivity.Ready:
		return "R"
	case connectivity.Idle:
		return "I"
	case connectivity.TransientFailure:
		return "T"
	}
	return "?"
}

func c39B(b bool) string {
	if b {
		return "1"
	}
	return "0"
}

func c39Key(w *c39World, b *priorityBalancer, m *c39Model) (key, obs string) {
	var sb strings.Builder
	d := c39Dump(b)
	w.mu.Lock()
	defer w.mu.Unlock()
	if m.closed {
		return "closed", "closed"
	}
	// model
	fmt.Fprintf(&sb, "M[%s]u=%s;", strings.Join(m.prios, ","), m.inUse)
	if !m.configured {
		sb.WriteString("unconfigured;")
	}
	for _, n := range c39Sorted(m.children) {
		c := m.children[n]
		fmt.Fprintf(&sb, "%s:%s%s%s%s%s;", n, c39B(c.started), c39St(c.state), c39B(c.timer >= 0), c39B(c.reportedTF), c39B(c.picker != nil))
	}
	for _, n := range c39Sorted(m.insts) {
		in := m.insts[n]
		fmt.Fprintf(&sb, "i%s:%s%s%s;", n, c39B(in.reported), c39St(in.state), c39B(in.cache >= 0))
	}
	// real
	fmt.Fprintf(&sb, "|R[%s]u=%s;h%s;", strings.Join(d.prios, ","), d.inUse, c39B(d.inhibit))
	for _, n := range c39Sorted(d.child) {
		c := d.child[n]
		_, own := c.picker.(*c39Picker)
		fmt.Fprintf(&sb, "%s:%s%s%s%s%s;", n, c39B(c.started), c39St(c.state), c39B(c.timer), c39B(c.reportedTF), c39B(own))
	}
	for _, n := range c39Sorted(w.live) {
		in := w.live[n]
		fmt.Fprintf(&sb, "i%s:%s%s;", n, c39B(in.reported), c39St(in.state))
	}
	if w.parent != nil {
		fmt.Fprintf(&sb, "P%s", c39St(w.parent.ConnectivityState))
	}
	// observation class
	idx := -1
	for i, n := range m.prios {
		if n == m.inUse {
			idx = i
		}
	}
	st := "-"
	if idx >= 0 {
		c := m.children[m.inUse]
		st = c39St(c.state)
		if c.timer >= 0 {
			st += "+timer"
		}
	}
	obs = fmt.Sprintf("n=%d inuse=#%d %s", len(m.prios), idx, st)
	return sb.String(), obs
}

// ------------------------------------------------------------------ runner ----

func c39Runner(t *testing.T, ops []c39Op, pre []int, manual bool) func(hist []int) seqx.Outcome {
	return func(h0 []int) (out seqx.Outcome) {
		hist := append(append([]int(nil), pre...), h0...)
		synctest.Test(t, func(t *testing.T) {
			w := &c39World{live: map[string]*c39Child{}}
			bal := bb{}.Build(&c39CC{w: w}, balancer.BuildOptions{})
			b := bal.(*priorityBalancer)
			m := c39NewModel(DefaultPriorityInitTimeout, DefaultSubBalancerCloseTimeout)
			var env *c39TimerEnv
			if manual {
				m.manual = true
				env = &c39TimerEnv{b: b}
				c39CurEnv.Store(env)
			}
			defer func() {
				if !m.closed {
					bal.Close()
				}
				synctest.Wait()
				if env != nil {
					env.stopAll()
					c39CurEnv.Store(nil)
				}
			}()
			synctest.Wait()
			for _, h := range hist {
				op := ops[h]
				preIdle := map[*c39Child]int{}
				switch op.kind {
				case "cfg":
					m.config(op.prios)
					if err := bal.UpdateClientConnState(balancer.ClientConnState{BalancerConfig: c39LBConfig(w, op.prios)}); err != nil {
						out.Fails = append(out.Fails, seqx.Fail{Prop: "C39", Key: "config-rejected", Desc: err.Error()})
					}
				case "child":
					w.mu.Lock()
					inst := w.live[op.child]
					var p *c39Picker
					if inst != nil {
						w.seq++
						p = &c39Picker{tag: fmt.Sprintf("%s#%d:%s", op.child, w.seq, op.state)}
						inst.reported, inst.state, inst.picker = true, op.state, p
					}
					w.mu.Unlock()
					if inst == nil || m.insts[op.child] == nil {
						// no such child policy object (in either world): not applicable
						out.Skip = true
						if (inst == nil) != (m.insts[op.child] == nil) {
							out.Skip = false
							out.Fails = append(out.Fails, seqx.Fail{Prop: "C39", Key: "child-policy-lifetime", Desc: fmt.Sprintf("child policy %q exists=%v, reference %v", op.child, inst != nil, m.insts[op.child] != nil)})
							out.Terminal = true
						}
						out.Key = "n/a"
						return
					}
					m.report(op.child, op.state, p)
					inst.cc.UpdateState(balancer.State{ConnectivityState: op.state, Picker: p})
				case "fire", "runcb":
					var e *c39TimerEntry
					var mOK bool
					if op.kind == "fire" {
						e, mOK = env.live(op.child), m.canFire(op.child)
					} else {
						e, mOK = env.oldestInflight(op.child), len(m.inflight[op.child]) > 0
					}
					if e == nil || !mOK {
						out.Skip, out.Key = true, "n/a"
						if (e != nil) != mOK {
							out.Skip, out.Terminal = false, true
							out.Fails = append(out.Fails, seqx.Fail{Prop: "C39", Key: "init-timer-differs", Desc: fmt.Sprintf("%s: real balancer has such a timer=%v, reference %v", op.name, e != nil, mOK)})
						}
						return
					}
					if op.kind == "fire" {
						// expiry delivered: a fired timer can no longer be stopped
						// (Stop reports false), its callback is in flight
						e.fired = true
						e.dummy.Stop()
						m.fire(op.child)
					} else {
						e.ran = true
						m.runCallback(op.child)
						e.f()
					}
				case "adv":
					m.advance(op.d)
					time.Sleep(op.d)
				case "exitidle":
					w.mu.Lock()
					for _, inst := range w.live {
						preIdle[inst] = inst.exitIdles
					}
					w.mu.Unlock()
					bal.ExitIdle()
				case "close":
					m.close()
					bal.Close()
				}
				synctest.Wait()
				out.Fails = append(out.Fails, c39Check(w, b, m, preIdle, op.kind)...)
				if len(out.Fails) > 0 {
					out.Terminal = true
					break
				}
			}
			out.Key, out.Obs = c39Key(w, b, m)
			if env != nil && !m.closed {
				// in-flight expiries: model (c = of the current timer, s = stale) and real
				var sb strings.Builder
				for _, n := range c39Sorted(m.inflight) {
					sb.WriteString(n + "=")
					for _, id := range m.inflight[n] {
						if c := m.children[n]; c != nil && c.started && c.timer >= 0 && c.timerID == id {
							sb.WriteString("c")
						} else {
							sb.WriteString("s")
						}
					}
					sb.WriteString(";")
				}
				out.Key += "|F:" + sb.String() + "|" + env.inflightKey()
				if len(m.inflight) > 0 {
					out.Obs += " +expiry-in-flight"
				}
			}
			if m.closed {
				out.Terminal = true
			}
		})
		return out
	}
}

func c39Names(ops []c39Op) []string {
	out := make([]string, len(ops))
	for i, o := range ops {
		out[i] = o.name
	}
	return out
}

func TestVerif_C39_Priority(t *testing.T) {
	const P = "C39"
	r := vk.Start(t, "c39_priority", "model_checking", P)
	defer r.Finish()
	r.Rule(P, "breadth-first over ALL event histories up to the depth bound, from two start states plus a timer-race scenario (scenario prio-timer-race, depth 6/10: the explorer owns the init timers through the package timeAfterFunc hook; fire(pN) delivers the expiry of the current init timer of pN, runTimerCallback(pN) runs the captured callback as a separate later event, so reports and config updates are interleaved between the expiry of a timer and the execution of its callback; config menu of 6 lists) (scenario prio: freshly built balancer, depth 6/8; scenario prio-all-running: after cfg[p0,p1,p2]; p0:TRANSIENT_FAILURE; advance(initTimeout), i.e. p0 failed, p1 timed out, p2 in use within its timeout, depth 5/7); each history is applied to a fresh real priority balancer (built through its builder, real balancergroup/gracefulswitch, real init and sub-balancer-cache timers on synctest virtual time) next to a reference A56 model; run to quiescence and compared after every event. Events: config update with any ordered list over {p0,p1,p2} (add/remove/reorder/empty), child policy pN reports CONNECTING/READY/IDLE/TRANSIENT_FAILURE with a fresh tagged picker (also while deactivated), advance virtual time by the init timeout, ExitIdle, advance by the sub-balancer retention time, Close. A state = canonical private selection state of the real balancer (childInUse, priorities, per child started/state/initTimer/reportedTF, open child policies and their last report, last parent state) + reference model state; distinct states are the non-trivial cases")
	r.Assume(P, "child policies are stubs that only report what the explorer tells them; GRPC_EXPERIMENTAL_ENABLE_PRIORITY_LB_CHILD_POLICY_CACHE unset (default); all events happen at quiescence (no event is injected while the balancer's serializer is busy)")
	r.Assume(P, "state key abstracts the remaining retention time of a deactivated child policy to retained/not: inside the depth bound 10 s advances can never add up to the 15 min retention and one 15 min advance always exceeds it; init timers always have exactly the full timeout left at quiescence")
	lists := c39AllLists([]string{"p0", "p1", "p2"})
	ops := c39Ops(lists, true)
	r.Set(P, "config_menu", len(lists))
	idx := map[string]int{}
	for i, o := range ops {
		idx[o.name] = i
	}
	scenarios := []struct {
		name  string
		pre   []string
		depth int
	}{
		// from the freshly built balancer
		{"prio", nil, r.Pick(6, 12)},
		// from a state in which all three priorities are running (p0 failed, p1
		// timed out, p2 in use and within its timeout): deeper reorder/removal/
		// recovery histories than the first scenario reaches
		{"prio-all-running", []string{"cfg[p0,p1,p2]", "p0:TRANSIENT_FAILURE", "advance(initTimeout)"}, r.Pick(5, 11)},
	}
	for i, sc := range scenarios {
		if !r.Mine(i) && r.ReplayFile() == "" {
			continue
		}
		var pre []int
		for _, p := range sc.pre {
			pre = append(pre, idx[p])
		}
		seqx.BFS(r, []string{P}, seqx.Config{
			Name: sc.name, Ops: c39Names(ops), MaxDepth: sc.depth, Parallel: 4,
			Congruence: r.Thorough(), CongruenceMax: 2000, MinStates: 100,
			Run: c39Runner(t, ops, pre, false),
		})
	}
	r.Sample(P, map[string]any{"scenario": "prio-all-running", "preamble": scenarios[1].pre})

	// Timer-race scenario: the explorer owns the init timers through the
	// timeAfterFunc hook, so "expiry delivered, callback not yet run" is a state.
	// Sequential (the hook is package-level state).
	if r.Mine(len(scenarios)) || r.ReplayFile() != "" {
		c39InstallHook()
		rops := c39RaceOps()
		seqx.BFS(r, []string{P}, seqx.Config{
			Name: "prio-timer-race", Ops: c39Names(rops), MaxDepth: r.Pick(6, 10), Parallel: 1,
			Congruence: r.Thorough(), CongruenceMax: 1000, MinStates: 100,
			Run: c39Runner(t, rops, nil, true),
		})
		r.Sample(P, map[string]any{"scenario": "prio-timer-race", "history": []string{"cfg[p0,p1]", "fire(p0)", "p0:READY", "p0:CONNECTING", "runTimerCallback(p0)"}, "expected": "stale callback is a no-op: p0 stays in use within its restarted init timeout, p1 not started"})
	}
}
