//go:build verif

package rls

// C41 (leg b, package balancer/rls): the RLS data cache's accounted size always
// equals the sum of its entries' sizes, and eviction removes least-recently-used
// entries first, stopping at entries that are not yet evictable.
//
// E2 (seqx BFS over operation sequences on a FRESH real dataCache inside a
// synctest bubble, because cache.go reads time.Now() directly). The oracle is
// c41bModel, an ordered list written from the property sentence.

import (
	"fmt"
	"os"
	"strings"
	"testing"
	"testing/synctest"
	"time"

	"google.golang.org/grpc/internal/verif/seqx"
	"google.golang.org/grpc/internal/verif/vk"
)

const c41bP = "C41"

// ---- reference model ----

type c41bEnt struct {
	k    int
	size int64
	// absolute virtual times
	earliestEvict time.Time
	expiry        time.Time
	backoffExpiry time.Time
}

type c41bModel struct {
	max   int64
	order []c41bEnt // least recently used first
}

func (m *c41bModel) sum() int64 {
	var s int64
	for _, e := range m.order {
		s += e.size
	}
	return s
}

func (m *c41bModel) find(k int) int {
	for i, e := range m.order {
		if e.k == k {
			return i
		}
	}
	return -1
}

// shrink evicts least-recently-used entries while the cache is over limit,
// stopping at the first entry that is not yet evictable.
func (m *c41bModel) shrink(limit int64, now time.Time) (evicted []int) {
	for m.sum() > limit && len(m.order) > 0 {
		lru := m.order[0]
		if now.Before(lru.earliestEvict) {
			break
		}
		evicted = append(evicted, lru.k)
		m.order = m.order[1:]
	}
	return
}

func (m *c41bModel) add(e c41bEnt, now time.Time) (ok bool, evicted []int) {
	if e.size > m.max {
		return false, nil // an entry larger than the whole cache is refused
	}
	m.order = append(m.order, e)
	return true, m.shrink(m.max, now)
}

func (m *c41bModel) touch(k int) bool {
	i := m.find(k)
	if i < 0 {
		return false
	}
	e := m.order[i]
	m.order = append(append([]c41bEnt{}, m.order[:i]...), m.order[i+1:]...)
	m.order = append(m.order, e)
	return true
}

func (m *c41bModel) expire(now time.Time) (evicted []int) {
	var keep []c41bEnt
	for _, e := range m.order {
		if !e.expiry.After(now) && !e.backoffExpiry.After(now) {
			evicted = append(evicted, e.k)
		} else {
			keep = append(keep, e)
		}
	}
	m.order = keep
	return
}

// ---- operations ----

type c41bOp struct {
	name string
	kind string // add get resize expire setsize advance
	k    int
	size int64
	menu int
	d    time.Duration
}

func c41bOps(nKeys int, sizes []int64, fineClock bool) []c41bOp {
	var ops []c41bOp
	for k := 1; k <= nKeys; k++ {
		ops = append(ops, c41bOp{name: fmt.Sprintf("get(%d)", k), kind: "get", k: k})
	}
	if fineClock {
		ops = append(ops, c41bOp{name: "advance(2s)", kind: "advance", d: 2 * time.Second})
	}
	ops = append(ops, c41bOp{name: "advance(5s)", kind: "advance", d: 5 * time.Second})
	ops = append(ops, c41bOp{name: "evictExpired", kind: "expire"})
	ops = append(ops, c41bOp{name: "resize(3)", kind: "resize", size: 3})
	ops = append(ops, c41bOp{name: "resize(6)", kind: "resize", size: 6})
	for k := 1; k <= nKeys; k++ {
		for _, s := range sizes {
			// menu 0: as the picker creates entries: not evictable for 5 s, data expires after 10 s
			ops = append(ops, c41bOp{name: fmt.Sprintf("add(%d,size=%d,hold5s,exp10s)", k, s), kind: "add", k: k, size: s, menu: 0})
			// menu 1: evictable at once, data expires after 3 s, backoff expiry after 6 s
			ops = append(ops, c41bOp{name: fmt.Sprintf("add(%d,size=%d,hold0,exp3s,boexp6s)", k, s), kind: "add", k: k, size: s, menu: 1})
		}
	}
	for k := 1; k <= nKeys; k++ {
		for _, s := range sizes {
			ops = append(ops, c41bOp{name: fmt.Sprintf("updateEntrySize(%d,%d)", k, s), kind: "setsize", k: k, size: s})
		}
	}
	return ops
}

func c41bKey(k int) cacheKey { return cacheKey{path: fmt.Sprintf("/svc/m%d", k), keys: "k=v"} }

type c41bWorld struct {
	dc    *dataCache
	m     c41bModel
	ptr   map[int]*cacheEntry // entries handed to the cache, by key
	fails []seqx.Fail
	obs   string
}

func (w *c41bWorld) fail(key, format string, a ...any) {
	for _, f := range w.fails {
		if f.Key == key {
			return
		}
	}
	w.fails = append(w.fails, seqx.Fail{Prop: c41bP, Key: key, Desc: fmt.Sprintf(format, a...)})
}

// realOrder reads the cache's LRU list front (least recent) to back.
func (w *c41bWorld) realOrder() []cacheKey {
	var out []cacheKey
	for e := w.dc.keys.ll.Front(); e != nil; e = e.Next() {
		out = append(out, e.Value.(cacheKey))
	}
	return out
}

func c41bRel(t, now time.Time) string {
	if !t.After(now) {
		return "-" // in the past or now: only the comparison with now matters, and time never goes back
	}
	return t.Sub(now).String()
}

// check compares the real cache with the model; returns the canonical state.
func (w *c41bWorld) check(after string) string {
	now := time.Now()
	dc := w.dc
	// (1) the statement's invariant on the real object alone
	var sum int64
	for _, e := range dc.entries {
		sum += e.size
	}
	if dc.currentSize != sum {
		w.fail("size-accounting", "after %s: currentSize=%d but the entries' sizes sum to %d", after, dc.currentSize, sum)
	}
	// (2) contents and recency order against the model
	ro := w.realOrder()
	var rs, ms []string
	for _, ck := range ro {
		e := dc.entries[ck]
		if e == nil {
			rs = append(rs, ck.path+":<in LRU list but not in entries>")
			continue
		}
		rs = append(rs, fmt.Sprintf("%s:%d:%s:%s:%s", ck.path, e.size, c41bRel(e.earliestEvictTime, now), c41bRel(e.expiryTime, now), c41bRel(e.backoffExpiryTime, now)))
	}
	for _, e := range w.m.order {
		ms = append(ms, fmt.Sprintf("%s:%d:%s:%s:%s", c41bKey(e.k).path, e.size, c41bRel(e.earliestEvict, now), c41bRel(e.expiry, now), c41bRel(e.backoffExpiry, now)))
	}
	r, m := strings.Join(rs, " "), strings.Join(ms, " ")
	if r != m {
		w.fail("lru-contents", "after %s: cache holds (least recent first) [%s], LRU reference [%s]", after, r, m)
	}
	if len(dc.entries) != len(ro) || len(dc.keys.m) != len(ro) {
		w.fail("lru-index", "after %s: %d entries, %d LRU list elements, %d LRU index elements", after, len(dc.entries), len(ro), len(dc.keys.m))
	}
	if dc.maxSize != w.m.max {
		w.fail("max-size", "after %s: maxSize=%d, reference %d", after, dc.maxSize, w.m.max)
	}
	return fmt.Sprintf("max=%d cur=%d real=[%s] model=[%s]", dc.maxSize, dc.currentSize, r, m)
}

func (w *c41bWorld) apply(op c41bOp) (applicable bool) {
	now := time.Now()
	switch op.kind {
	case "add":
		if w.m.find(op.k) >= 0 {
			return false // only absent keys are added (as the picker does)
		}
		ent := &cacheEntry{size: op.size}
		me := c41bEnt{k: op.k, size: op.size}
		if op.menu == 0 {
			ent.earliestEvictTime = now.Add(minEvictDuration)
			ent.expiryTime = now.Add(10 * time.Second)
			me.earliestEvict, me.expiry = now.Add(5*time.Second), now.Add(10*time.Second)
		} else {
			ent.expiryTime = now.Add(3 * time.Second)
			ent.backoffExpiryTime = now.Add(6 * time.Second)
			me.expiry, me.backoffExpiry = now.Add(3*time.Second), now.Add(6*time.Second)
		}
		_, ok := w.dc.addEntry(c41bKey(op.k), ent)
		wantOK, ev := w.m.add(me, now)
		if ok != wantOK {
			w.fail("add-result", "%s: addEntry returned ok=%v, reference %v (max %d)", op.name, ok, wantOK, w.m.max)
		}
		if ok {
			w.ptr[op.k] = ent
		}
		switch {
		case !wantOK:
			w.obs = "add refused: larger than the cache"
		case len(ev) > 0 && w.m.sum() > w.m.max:
			w.obs = "add evicts LRU entries then stops at a not-yet-evictable entry"
		case len(ev) > 0:
			w.obs = "add evicts LRU entries"
		case w.m.sum() > w.m.max:
			w.obs = "add leaves the cache over its limit: LRU entry not yet evictable"
		default:
			w.obs = "add fits"
		}
	case "get":
		got := w.dc.getEntry(c41bKey(op.k))
		present := w.m.touch(op.k)
		if (got != nil) != present {
			w.fail("get-result", "%s: getEntry returned %v, reference present=%v", op.name, got != nil, present)
		} else if got != nil && got != w.ptr[op.k] {
			w.fail("get-result", "%s: getEntry returned a different entry than the one added", op.name)
		}
		if present {
			w.obs = "get hit"
		} else {
			w.obs = "get miss"
		}
	case "resize":
		w.dc.resize(op.size)
		ev := w.m.shrink(op.size, now)
		w.m.max = op.size
		switch {
		case len(ev) > 0 && w.m.sum() > w.m.max:
			w.obs = "resize evicts LRU entries then stops at a not-yet-evictable entry"
		case len(ev) > 0:
			w.obs = "resize evicts LRU entries"
		case w.m.sum() > w.m.max:
			w.obs = "resize cannot evict: LRU entry not yet evictable"
		default:
			w.obs = "resize: nothing to evict"
		}
	case "expire":
		got := w.dc.evictExpiredEntries()
		ev := w.m.expire(now)
		if got != (len(ev) > 0) {
			w.fail("expire-result", "evictExpiredEntries returned %v, reference evicted %v", got, ev)
		}
		if len(ev) > 0 {
			w.obs = "expired entries evicted"
		} else {
			w.obs = "nothing expired"
		}
	case "setsize":
		i := w.m.find(op.k)
		if i < 0 || w.m.order[i].size == op.size {
			return false
		}
		ent := w.dc.entries[c41bKey(op.k)] // read without touching recency
		if ent == nil {
			w.fail("lru-contents", "%s: entry missing from the cache", op.name)
			return true
		}
		w.dc.updateEntrySize(ent, op.size)
		w.m.order[i].size = op.size
		w.obs = "entry size updated"
	case "advance":
		time.Sleep(op.d)
		w.obs = "time advances"
	}
	return true
}

// c41bApplicable runs the reference model ALONE over hist (synthetic clock) and
// reports whether the last operation is applicable; it saves building a real
// cache for histories the BFS is going to prune anyway. The real run below
// re-derives applicability and flags any disagreement.
func c41bApplicable(ops []c41bOp, hist []int) bool {
	m := c41bModel{max: 6}
	now := time.Unix(0, 0)
	for i, h := range hist {
		op := ops[h]
		ok := true
		switch op.kind {
		case "add":
			if m.find(op.k) >= 0 {
				ok = false
				break
			}
			me := c41bEnt{k: op.k, size: op.size}
			if op.menu == 0 {
				me.earliestEvict, me.expiry = now.Add(5*time.Second), now.Add(10*time.Second)
			} else {
				me.expiry, me.backoffExpiry = now.Add(3*time.Second), now.Add(6*time.Second)
			}
			m.add(me, now)
		case "get":
			m.touch(op.k)
		case "resize":
			m.shrink(op.size, now)
			m.max = op.size
		case "expire":
			m.expire(now)
		case "setsize":
			j := m.find(op.k)
			if j < 0 || m.order[j].size == op.size {
				ok = false
				break
			}
			m.order[j].size = op.size
		case "advance":
			now = now.Add(op.d)
		}
		if !ok {
			return i != len(hist)-1 // inapplicable in the middle: let the real run report it
		}
	}
	return true
}

func c41bRun(t *testing.T, ops []c41bOp, everyStep bool, hist []int) (out seqx.Outcome) {
	if !c41bApplicable(ops, hist) {
		return seqx.Outcome{Skip: true}
	}
	synctest.Test(t, func(*testing.T) {
		w := &c41bWorld{dc: newDataCache(6, nil, "verif-target"), m: c41bModel{max: 6}, ptr: map[int]*cacheEntry{}}
		defer func() {
			if p := recover(); p != nil {
				w.fail("panic", "panic: %v", p)
				out = seqx.Outcome{Key: "panic " + fmt.Sprint(hist), Terminal: true, Fails: w.fails, Obs: "panic"}
			}
		}()
		key := ""
		for i, h := range hist {
			last := i == len(hist)-1
			w.obs = ""
			if !w.apply(ops[h]) {
				if last {
					out = seqx.Outcome{Skip: true}
					return
				}
				w.fail("harness-nondeterminism", "operation %s inapplicable in the middle of a history", ops[h].name)
			}
			if everyStep || last {
				key = w.check(ops[h].name)
			}
		}
		if len(hist) == 0 {
			key = w.check("start")
		}
		out = seqx.Outcome{Key: key, Fails: w.fails, Obs: w.obs}
	})
	return out
}

func TestVerif_C41_RLSCache(t *testing.T) {
	const P = c41bP
	r := vk.Start(t, "c41b_rlscache", "model_checking", P)
	defer r.Finish()
	type scen struct {
		name  string
		keys  int
		sizes []int64
		fine  bool
		depth int
	}
	var scens []scen
	if r.Thorough() {
		scens = []scen{
			{"datacache-3keys", 3, []int64{1, 2, 5}, true, 7},
			{"datacache-4keys", 4, []int64{1, 2, 5}, false, 6},
			{"datacache-2keys-deep", 2, []int64{2, 5}, false, 9},
		}
	} else {
		scens = []scen{
			{"datacache-3keys", 3, []int64{1, 2, 5}, false, 6},
			{"datacache-2keys-deep", 2, []int64{2, 5}, false, 7},
		}
	}
	if v := os.Getenv("VERIF_C41B_ONLY"); v != "" { // experiments only
		var keep []scen
		for _, sc := range scens {
			if sc.name == v {
				keep = append(keep, sc)
			}
		}
		scens = keep
	}
	r.Rule(P, "breadth-first over ALL operation sequences up to the depth bound on a fresh real dataCache (maxSize 6) in a synctest bubble: addEntry(absent key, size, {not evictable for 5 s, expires in 10 s} | {evictable at once, expires in 3 s, backoff expiry in 6 s}), getEntry(k), resize(3|6), evictExpiredEntries, updateEntrySize(present k, size), advance 5 s (and 2 s where stated). Scenarios quick: 3 keys x sizes {1,2,5} depth 6; 2 keys x sizes {2,5} depth 7. Thorough: 3 keys x sizes {1,2,5} with advance 2 s|5 s depth 7; 4 keys x sizes {1,2,5} depth 6; 2 keys x sizes {2,5} depth 9. After the last operation of every history (every operation in the thorough tier) the real cache is compared with an ordered-list LRU reference: currentSize == sum of entry sizes, same entries with same sizes in the same recency order (read from the private list), same maxSize, same return values. A state = private fields (maxSize, currentSize, LRU order with sizes and time-to-evictable / time-to-expiry) + the reference; distinct states are the non-trivial cases")
	r.Assume(P, "an entry is evictable from its earliestEvictTime on (inclusive) and expired from its expiryTime/backoffExpiryTime on (inclusive: 'stops being valid at'); an entry larger than the cache is refused; updateEntrySize alone never evicts; operations are serialized (the balancer holds cacheMu)")
	for _, sc := range scens {
		ops := c41bOps(sc.keys, sc.sizes, sc.fine)
		names := make([]string, len(ops))
		for i, o := range ops {
			names[i] = o.name
		}
		seqx.BFS(r, []string{P}, seqx.Config{
			Name: sc.name, Ops: names, MaxDepth: sc.depth, Parallel: 16,
			Congruence: r.Thorough(), CongruenceMax: 200, MinStates: 50,
			Run: func(hist []int) seqx.Outcome { return c41bRun(t, ops, r.Thorough(), hist) },
		})
	}
}
