//go:build verif

package gracefulswitch

import (
	"fmt"
	"sort"
	"strconv"
	"strings"
	"sync"
	"testing"

	"google.golang.org/grpc/balancer"
	"google.golang.org/grpc/connectivity"
	"google.golang.org/grpc/internal/verif/vk"
	"google.golang.org/grpc/internal/verif/vsched"
	"google.golang.org/grpc/resolver"
)

// ---- C33, schedule level (E1): child policies call UpdateState / NewSubConn
// from their own goroutines concurrently with SwitchTo / Close / subchannel
// updates issued by the (serialised) channel thread. The harness' own
// bookkeeping uses native sync and is therefore atomic with the step that
// performs it; it never holds its lock across a scheduling point.

// ------------------------------------------- sequential reference machine ----

type c33sOp struct {
	kind  string // switch | report | newsc | close | deliver
	pol   int    // policy index (creation order) for report/newsc/deliver; created policy for switch
	state connectivity.State
	seq   int // report number of that policy
}

func (o c33sOp) String() string {
	switch o.kind {
	case "switch":
		return fmt.Sprintf("SwitchTo(p%d)", o.pol)
	case "report":
		return fmt.Sprintf("p%d.UpdateState(%v)", o.pol, o.state)
	case "newsc":
		return fmt.Sprintf("p%d.NewSubConn", o.pol)
	case "deliver":
		return fmt.Sprintf("subchannel update for p%d", o.pol)
	}
	return "Close"
}

// c33sRef is the statement's current/pending machine, copyable by value
// except for the slices (cloned in clone()).
type c33sRef struct {
	closedTop bool
	cur, pend int
	closed    []bool
	reported  []bool
	state     []connectivity.State
	seq       []int
	last      string // what the channel holds
}

func (m c33sRef) clone() c33sRef {
	m.closed = append([]bool(nil), m.closed...)
	m.reported = append([]bool(nil), m.reported...)
	m.state = append([]connectivity.State(nil), m.state...)
	m.seq = append([]int(nil), m.seq...)
	return m
}

func (m *c33sRef) stateOf(i int) connectivity.State {
	if !m.reported[i] {
		return connectivity.Connecting // a policy that has not reported yet is still connecting
	}
	return m.state[i]
}

func c33sTag(pol, seq int, s connectivity.State) string {
	if seq == 0 {
		return "nopolicy/" + s.String()
	}
	return fmt.Sprintf("p%d#%d/%v", pol, seq, s)
}

func (m *c33sRef) forward(i int) { m.last = c33sTag(i, m.seq[i], m.stateOf(i)) }

func (m *c33sRef) swap() {
	m.closed[m.cur] = true
	m.cur, m.pend = m.pend, -1
	m.forward(m.cur)
}

// enabled: a policy can only act once it exists.
func (m *c33sRef) enabled(o c33sOp) bool {
	switch o.kind {
	case "report", "newsc", "deliver":
		return o.pol < len(m.closed)
	}
	return true
}

func (m *c33sRef) apply(o c33sOp) {
	switch o.kind {
	case "switch":
		if m.closedTop {
			// keeps indices aligned: the policy is never built; nothing in the
			// scenarios depends on it
			m.closed, m.reported, m.state, m.seq = append(m.closed, true), append(m.reported, false), append(m.state, 0), append(m.seq, 0)
			return
		}
		m.closed, m.reported, m.state, m.seq = append(m.closed, false), append(m.reported, false), append(m.state, 0), append(m.seq, 0)
		n := len(m.closed) - 1
		switch {
		case m.cur < 0:
			m.cur = n
		case m.pend < 0:
			m.pend = n
		default:
			m.closed[m.pend] = true // superseded
			m.pend = n
		}
	case "report":
		i := o.pol
		m.reported[i], m.state[i], m.seq[i] = true, o.state, o.seq
		if m.closedTop || m.closed[i] {
			return
		}
		switch i {
		case m.cur:
			if m.pend >= 0 && o.state != connectivity.Ready {
				m.swap()
				return
			}
			m.forward(i)
		case m.pend:
			if o.state != connectivity.Connecting || m.stateOf(m.cur) != connectivity.Ready {
				m.swap()
			}
		}
	case "close":
		m.closedTop = true
		if m.cur >= 0 {
			m.closed[m.cur] = true
		}
		if m.pend >= 0 {
			m.closed[m.pend] = true
		}
		m.cur, m.pend = -1, -1
	}
}

func (m *c33sRef) final() string {
	var cl []string
	for i, c := range m.closed {
		if c {
			cl = append(cl, fmt.Sprintf("p%d", i))
		}
	}
	return fmt.Sprintf("current=%d pending=%d closed=[%s] channel=%s", m.cur, m.pend, strings.Join(cl, " "), m.last)
}

// c33sLinearizations returns the final states of all sequential orders of the
// threads' operations that respect program order (the admissible outcomes).
func c33sLinearizations(init c33sRef, threads [][]c33sOp) map[string][]string {
	out := map[string][]string{}
	pos := make([]int, len(threads))
	var order []string
	var rec func(m c33sRef)
	rec = func(m c33sRef) {
		done := true
		for t := range threads {
			if pos[t] >= len(threads[t]) {
				continue
			}
			done = false
			o := threads[t][pos[t]]
			if !m.enabled(o) {
				continue
			}
			n := m.clone()
			n.apply(o)
			pos[t]++
			order = append(order, o.String())
			rec(n)
			order = order[:len(order)-1]
			pos[t]--
		}
		if done {
			f := m.final()
			if _, ok := out[f]; !ok {
				out[f] = append([]string(nil), order...)
			}
		}
	}
	rec(init)
	return out
}

// ------------------------------------------------------ ledger and fakes ----

type c33sPicker struct {
	pol, seq int
	st       connectivity.State
}

func (p *c33sPicker) Pick(balancer.PickInfo) (balancer.PickResult, error) {
	return balancer.PickResult{}, fmt.Errorf("c33s picker p%d#%d", p.pol, p.seq)
}

type c33sSC struct {
	balancer.SubConn
	led       *c33sLedger
	id, owner int
	listener  func(balancer.SubConnState)
	shutdowns int
}

func (sc *c33sSC) Shutdown() {
	sc.led.mu.Lock()
	sc.shutdowns++
	sc.led.mu.Unlock()
	vsched.Observe("sc%d(p%d).Shutdown", sc.id, sc.owner)
}
func (sc *c33sSC) Connect()                                           {}
func (sc *c33sSC) UpdateAddresses([]resolver.Address)                 {}
func (sc *c33sSC) RegisterHealthListener(func(balancer.SubConnState)) {}

type c33sLedger struct {
	mu       sync.Mutex
	x        *vsched.X
	policies []*c33sChild
	scs      []*c33sSC
	last     string // what the channel holds (tag of the last update that reached it)
	updates  int
}

func (l *c33sLedger) policy(i int) *c33sChild {
	l.mu.Lock()
	defer l.mu.Unlock()
	return l.policies[i]
}

// c33sCC is the fake parent ClientConn (the channel).
type c33sCC struct {
	balancer.ClientConn
	led *c33sLedger
}

func (cc *c33sCC) NewSubConn(addrs []resolver.Address, opts balancer.NewSubConnOptions) (balancer.SubConn, error) {
	led := cc.led
	owner, _ := strconv.Atoi(addrs[0].Addr)
	led.mu.Lock()
	sc := &c33sSC{led: led, id: len(led.scs), owner: owner, listener: opts.StateListener}
	led.scs = append(led.scs, sc)
	led.mu.Unlock()
	vsched.Observe("channel.NewSubConn→sc%d for p%d", sc.id, owner)
	vsched.Yield() // creating a subchannel takes time: the caller may be closed meanwhile
	return sc, nil
}
func (cc *c33sCC) RemoveSubConn(sc balancer.SubConn)                    { sc.Shutdown() }
func (cc *c33sCC) UpdateAddresses(balancer.SubConn, []resolver.Address) {}
func (cc *c33sCC) ResolveNow(resolver.ResolveNowOptions)                {}
func (cc *c33sCC) Target() string                                       { return "c33s:///x" }

func (cc *c33sCC) UpdateState(s balancer.State) {
	vsched.Yield() // the channel takes time to apply a new picker
	led := cc.led
	led.mu.Lock()
	defer led.mu.Unlock()
	led.updates++
	p, ok := s.Picker.(*c33sPicker)
	if !ok {
		led.last = c33sTag(0, 0, s.ConnectivityState)
		vsched.Observe("channel←%s", led.last)
		return
	}
	led.last = c33sTag(p.pol, p.seq, s.ConnectivityState)
	vsched.Observe("channel←%s", led.last)
	if p.st != s.ConnectivityState {
		led.x.Fail("C33", "state-picker-mismatch", "the channel got state %v with the picker policy p%d attached to its %v report", s.ConnectivityState, p.pol, p.st)
	}
	c := led.policies[p.pol]
	if c.closeReturned {
		led.x.Fail("C33", "update-after-close-returned", "an update (%s) of policy p%d reached the channel after that policy's Close() had returned", led.last, p.pol)
	}
	if c.bornSuperseded[p.seq] {
		led.x.Fail("C33", "update-from-superseded-policy", "update %s reached the channel although policy p%d had already been superseded (its Close had been invoked) when it made the call", led.last, p.pol)
	}
}

// c33sChild is a stub LB policy. Its methods are called by the instrumented
// balancer; its actions (report/newSubConn) are called from harness threads.
type c33sChild struct {
	led            *c33sLedger
	idx            int
	name           string
	cc             balancer.ClientConn
	seq            int
	closes         int
	closeBegan     bool
	closeReturned  bool
	inListener     int
	bornSuperseded map[int]bool
	scOK, scErr    int
}

func (c *c33sChild) report(s connectivity.State) {
	c.led.mu.Lock()
	c.seq++
	seq := c.seq
	c.bornSuperseded[seq] = c.closeBegan
	c.led.mu.Unlock()
	vsched.Observe("p%d.UpdateState(%v) begins", c.idx, s)
	c.cc.UpdateState(balancer.State{ConnectivityState: s, Picker: &c33sPicker{pol: c.idx, seq: seq, st: s}})
}

func (c *c33sChild) newSubConn() {
	vsched.Observe("p%d.NewSubConn begins", c.idx)
	sc, err := c.cc.NewSubConn([]resolver.Address{{Addr: strconv.Itoa(c.idx)}}, balancer.NewSubConnOptions{StateListener: c.onSC})
	c.led.mu.Lock()
	if err != nil || sc == nil {
		c.scErr++
	} else {
		c.scOK++
	}
	c.led.mu.Unlock()
	vsched.Observe("p%d.NewSubConn returned err=%v", c.idx, err != nil)
}

func (c *c33sChild) onSC(balancer.SubConnState) {
	c.led.mu.Lock()
	if c.closeBegan {
		c.led.x.Fail("C33", "subchannel-update-delivered-to-closed-policy", "a subchannel state update was delivered to policy p%d after its Close() had been invoked", c.idx)
	}
	c.inListener++
	c.led.mu.Unlock()
	vsched.Observe("p%d listener begins", c.idx)
	vsched.Yield() // the policy takes time to process the update
	c.led.mu.Lock()
	c.inListener--
	c.led.mu.Unlock()
	vsched.Observe("p%d listener ends", c.idx)
}

func (c *c33sChild) UpdateClientConnState(balancer.ClientConnState) error   { return nil }
func (c *c33sChild) ResolverError(error)                                    {}
func (c *c33sChild) UpdateSubConnState(balancer.SubConn, balancer.SubConnState) {}
func (c *c33sChild) ExitIdle()                                              {}
func (c *c33sChild) Close() {
	c.led.mu.Lock()
	c.closes++
	c.closeBegan = true
	if c.inListener > 0 {
		c.led.x.Fail("C33", "policy-closed-during-subchannel-update", "Close() of policy p%d was invoked while a subchannel state update was being delivered to it", c.idx)
	}
	c.led.mu.Unlock()
	vsched.Observe("p%d.Close begins", c.idx)
	vsched.Yield() // closing a policy takes time
	c.led.mu.Lock()
	c.closeReturned = true
	c.led.mu.Unlock()
	vsched.Observe("p%d.Close returns", c.idx)
}

// c33sBuilder builds stub policies; spawn (optional) starts the policy's own
// goroutine from inside Build, as real policies do.
type c33sBuilder struct {
	name  string
	led   *c33sLedger
	spawn func(c *c33sChild)
}

func (b *c33sBuilder) Name() string { return b.name }
func (b *c33sBuilder) Build(cc balancer.ClientConn, _ balancer.BuildOptions) balancer.Balancer {
	led := b.led
	led.mu.Lock()
	c := &c33sChild{led: led, idx: len(led.policies), name: b.name, cc: cc, bornSuperseded: map[int]bool{}}
	led.policies = append(led.policies, c)
	led.mu.Unlock()
	vsched.Observe("Build(%s)=p%d", b.name, c.idx)
	if b.spawn != nil {
		spawn := b.spawn
		vsched.GoNamed("policy-"+b.name, func() { spawn(c) })
	}
	return c
}

// --------------------------------------------------------------- scenarios ----

// c33sWorld is what a scenario body gets after the common set-up.
type c33sWorld struct {
	x   *vsched.X
	led *c33sLedger
	gsb *Balancer
}

func (w *c33sWorld) builder(name string, spawn func(c *c33sChild)) *c33sBuilder {
	return &c33sBuilder{name: name, led: w.led, spawn: spawn}
}

// c33sInit is the start state of every scenario: policy A (p0) is current and
// has reported READY (report #1), optionally with one subchannel.
func c33sInit(x *vsched.X, withSC bool) (*c33sWorld, *c33sChild, c33sRef) {
	led := &c33sLedger{x: x}
	w := &c33sWorld{x: x, led: led, gsb: NewBalancer(&c33sCC{led: led}, balancer.BuildOptions{})}
	w.gsb.SwitchTo(w.builder("A", nil))
	a := led.policy(0)
	if withSC {
		a.newSubConn()
	}
	a.report(connectivity.Ready)
	ref := c33sRef{cur: -1, pend: -1}
	ref.apply(c33sOp{kind: "switch", pol: 0})
	ref.apply(c33sOp{kind: "report", pol: 0, state: connectivity.Ready, seq: 1})
	return w, a, ref
}

// c33sFinal is the end-of-execution check shared by all scenarios.
func c33sFinal(w *c33sWorld, admissible map[string][]string) func(x *vsched.X) {
	return func(x *vsched.X) {
		if x.Stuck != "" {
			x.Fail("C33", "deadlock", "execution stuck: %s", x.Stuck)
		}
		for _, p := range x.Panics {
			x.Fail("C33", "panic", "%s", p)
		}
		led := w.led
		led.mu.Lock()
		defer led.mu.Unlock()
		idx := func(bw *balancerWrapper) int {
			if bw == nil {
				return -1
			}
			for _, c := range led.policies {
				if c.cc == balancer.ClientConn(bw) {
					return c.idx
				}
			}
			return -2
		}
		w.gsb.mu.Lock()
		cur, pend := idx(w.gsb.balancerCurrent), idx(w.gsb.balancerPending)
		w.gsb.mu.Unlock()
		var cl []string
		for _, c := range led.policies {
			if c.closes > 1 {
				x.Fail("C33", "policy-closed-twice", "policy p%d (%s) was closed %d times", c.idx, c.name, c.closes)
			}
			if c.closes > 0 {
				cl = append(cl, fmt.Sprintf("p%d", c.idx))
				if !c.closeReturned && x.Stuck == "" {
					x.Fail("C33", "close-did-not-return", "Close() of policy p%d never returned", c.idx)
				}
			}
		}
		// every subchannel the channel ever handed out for a policy that ended up closed is shut down
		leaked := 0
		for _, sc := range led.scs {
			if sc.owner < len(led.policies) && led.policies[sc.owner].closes > 0 && sc.shutdowns == 0 {
				leaked++
				x.Fail("C33", "subchannel-of-closed-policy-not-shut-down", "subchannel sc%d was created by the channel for policy p%d, that policy is closed at the end, but the subchannel was never shut down", sc.id, sc.owner)
			}
			if sc.owner < len(led.policies) && led.policies[sc.owner].closes == 0 && sc.shutdowns > 0 {
				x.Fail("C33", "subchannel-of-live-policy-shut-down", "subchannel sc%d of policy p%d was shut down although that policy is still current/pending", sc.id, sc.owner)
			}
		}
		got := fmt.Sprintf("current=%d pending=%d closed=[%s] channel=%s", cur, pend, strings.Join(cl, " "), led.last)
		if _, ok := admissible[got]; !ok && x.Stuck == "" {
			var adm []string
			for k, order := range admissible {
				adm = append(adm, k+"  (e.g. "+strings.Join(order, " ; ")+")")
			}
			sort.Strings(adm)
			x.Fail("C33", "final-state-matches-no-sequential-order", "end state {%s} is not the end state of the reference machine for ANY sequential order of the operations; admissible:\n    %s", got, strings.Join(adm, "\n    "))
		}
		x.Outcome(fmt.Sprintf("%s updates=%d subchannels=%d", got, led.updates, len(led.scs)))
	}
}

type c33sThread struct {
	name string
	ops  []c33sOp
}

// c33sScenario: common shape. pre = extra channel operations applied in the
// set-up phase (only SwitchTo); threads hold the racing operations; a thread
// named "policy-X" for a policy that is built DURING the run is started from
// inside that policy's Build.
func c33sScenario(name string, bound int, withSC bool, pre []string, threads []c33sThread, minOutcomes int) vsched.Scenario {
	return vsched.Scenario{Name: name, Bound: bound, MinOutcomes: minOutcomes, Body: func(x *vsched.X) {
		w, _, ref := c33sInit(x, withSC)
		names := []string{"A"}
		for _, n := range pre {
			w.gsb.SwitchTo(w.builder(n, nil))
			ref.apply(c33sOp{kind: "switch", pol: len(names)})
			names = append(names, n)
		}
		built := len(names)
		var model [][]c33sOp
		for _, th := range threads {
			model = append(model, th.ops)
			for _, o := range th.ops {
				if o.kind == "switch" {
					names = append(names, string(rune('A'+o.pol)))
				}
			}
		}
		admissible := c33sLinearizations(ref, model)
		var do func(o c33sOp)
		do = func(o c33sOp) {
			switch o.kind {
			case "report":
				w.led.policy(o.pol).report(o.state)
			case "newsc":
				w.led.policy(o.pol).newSubConn()
			case "close":
				vsched.Observe("Close begins")
				w.gsb.Close()
				vsched.Observe("Close returned")
			case "deliver":
				w.led.mu.Lock()
				var sc *c33sSC
				for _, s := range w.led.scs {
					if s.owner == o.pol {
						sc = s
						break
					}
				}
				w.led.mu.Unlock()
				vsched.Observe("channel delivers READY for sc%d", sc.id)
				sc.listener(balancer.SubConnState{ConnectivityState: connectivity.Ready})
			case "switch":
				// the new policy's own thread (if any) is started from its Build
				var spawn func(c *c33sChild)
				for _, th := range threads {
					th := th
					if th.name == "policy-"+names[o.pol] {
						spawn = func(*c33sChild) {
							for _, po := range th.ops {
								do(po)
							}
						}
					}
				}
				vsched.Observe("SwitchTo(%s) begins", names[o.pol])
				w.gsb.SwitchTo(w.builder(names[o.pol], spawn))
				vsched.Observe("SwitchTo(%s) returned", names[o.pol])
			}
		}
		for _, th := range threads {
			th := th
			// threads of policies that do not exist yet start from Build
			if strings.HasPrefix(th.name, "policy-") {
				exists := false
				for i := 0; i < built; i++ {
					if th.name == "policy-"+names[i] {
						exists = true
					}
				}
				if !exists {
					continue
				}
			}
			x.Go(th.name, func() {
				for _, o := range th.ops {
					do(o)
				}
			})
		}
		x.Final(c33sFinal(w, admissible))
		x.Cleanup(func() { w.gsb.Close() })
	}}
}

func TestVerif_C33_GSBSched(t *testing.T) {
	const P = "C33"
	r := vk.Start(t, "c33_gsb_sched", "exploration", P)
	defer r.Finish()
	r.Rule(P, "every schedule with at most B deviations (quick 2, thorough 3) of closed drivers on the instrumented real gracefulswitch.Balancer (every lock / WaitGroup operation and the goroutine that closes the old policy are owned by the scheduler; the fake channel's NewSubConn/UpdateState, the stub policy's Close and its subchannel listener contain an explicit yield because they take time in reality). Start: policy A current and READY. Scenarios: (a) channel SwitchTo(B) ‖ A reports TRANSIENT_FAILURE ‖ B (its goroutine started from Build) reports READY; (b) channel Close ‖ A: NewSubConn, UpdateState; (c) channel SwitchTo(B), SwitchTo(C) ‖ B: NewSubConn, READY; (d) B pending reports READY (swap closes A on a goroutine) ‖ A: NewSubConn, TRANSIENT_FAILURE; (d2) channel SwitchTo(C) superseding pending B ‖ B: NewSubConn, NewSubConn; (e) channel delivers a subchannel update to A ‖ B pending reports READY. Ledger oracle: nothing of a policy reaches the channel after its Close() returned nor from a call begun after its Close was invoked; every subchannel the channel handed out for a policy that ends up closed is shut down; each policy closed at most once and its Close returns; the end state (current, pending, closed set, what the channel holds) equals the reference machine's end state for SOME sequential order of the operations; no deadlock / panic. non-trivial = executions deviating from the default schedule (distinct by construction of the DFS)")
	r.Assume(P, "scheduling points at sync operations, goroutine starts and explicit yields suffice (plain-memory races are left to the race detector pass); channel calls (SwitchTo, Close, subchannel updates) are serialised among themselves as the channel does")
	b := r.Pick(2, 3)
	R, TF := connectivity.Ready, connectivity.TransientFailure
	scs := []vsched.Scenario{
		c33sScenario("a/switchB‖A:TF‖B:READY", b, false, nil, []c33sThread{
			{"channel", []c33sOp{{kind: "switch", pol: 1}}},
			{"policy-A", []c33sOp{{kind: "report", pol: 0, state: TF, seq: 2}}},
			{"policy-B", []c33sOp{{kind: "report", pol: 1, state: R, seq: 1}}},
		}, 2),
		c33sScenario("b/close‖A:newsc,TF", b, false, nil, []c33sThread{
			{"channel", []c33sOp{{kind: "close"}}},
			{"policy-A", []c33sOp{{kind: "newsc", pol: 0}, {kind: "report", pol: 0, state: TF, seq: 2}}},
		}, 2),
		c33sScenario("c/switchB,switchC‖B:newsc,READY", b, false, nil, []c33sThread{
			{"channel", []c33sOp{{kind: "switch", pol: 1}, {kind: "switch", pol: 2}}},
			{"policy-B", []c33sOp{{kind: "newsc", pol: 1}, {kind: "report", pol: 1, state: R, seq: 1}}},
		}, 2),
		c33sScenario("d/B:READY(swap)‖A:newsc,TF", b, false, []string{"B"}, []c33sThread{
			{"policy-B", []c33sOp{{kind: "report", pol: 1, state: R, seq: 1}}},
			{"policy-A", []c33sOp{{kind: "newsc", pol: 0}, {kind: "report", pol: 0, state: TF, seq: 2}}},
		}, 2),
		c33sScenario("d2/switchC‖pendingB:newsc,newsc", b, false, []string{"B"}, []c33sThread{
			{"channel", []c33sOp{{kind: "switch", pol: 2}}},
			{"policy-B", []c33sOp{{kind: "newsc", pol: 1}, {kind: "newsc", pol: 1}}},
		}, 2),
		c33sScenario("e/deliver(A)‖B:READY(swap)", b, true, []string{"B"}, []c33sThread{
			{"channel", []c33sOp{{kind: "deliver", pol: 0}}},
			{"policy-B", []c33sOp{{kind: "report", pol: 1, state: R, seq: 1}}},
		},1),
	}
	vsched.RunScenarios(t, r, []string{P}, scs)
	r.Sample(P, map[string]any{"scenario": "a/switchB‖A:TF‖B:READY", "threads": []string{"channel: SwitchTo(B)", "policy-A: UpdateState(TRANSIENT_FAILURE)", "policy-B (started inside Build): UpdateState(READY)", "adopted: the goroutine in swap() that closes the old policy"}})
	r.Sample(P, map[string]any{"scenario": "d/B:READY(swap)‖A:newsc,TF", "kind": "A's NewSubConn is inside the channel (yield) while B's READY swaps A out and the close goroutine shuts A's recorded subchannels down; the subchannel created meanwhile must still end up shut down"})
}
