//go:build verif

package outlierdetection

// C40 — outlier detection ejects by the A50 rules and counts ejections correctly.
//
// Engine E2 (seqx): breadth-first over ALL event histories up to the depth bound.
// Every history is applied to a FRESH REAL outlierDetectionBalancer built through
// its builder inside a testing/synctest bubble (real gracefulswitch wrapper, real
// subConnWrappers, real callCounters, the real interval timer on virtual time)
// next to a reference gRFC A50 model (c40Model) that uses exact integer/rational
// arithmetic. Call results are injected through the Done callback of the REAL
// wrapped picker most recently pushed to the parent ClientConn. After every event
// the bubble is run to quiescence and compared with the model.

import (
	"errors"
	"fmt"
	"math/big"
	"sort"
	"strings"
	"sync"
	"sync/atomic"
	"testing"
	"testing/synctest"
	"time"

	"google.golang.org/grpc/balancer"
	"google.golang.org/grpc/connectivity"
	estats "google.golang.org/grpc/experimental/stats"
	iserviceconfig "google.golang.org/grpc/internal/serviceconfig"
	istats "google.golang.org/grpc/internal/stats"
	"google.golang.org/grpc/internal/verif/seqx"
	"google.golang.org/grpc/internal/verif/vk"
	"google.golang.org/grpc/resolver"
	"google.golang.org/grpc/serviceconfig"
)

const (
	c40StubName = "c40_stub_child_policy"
	c40Vol      = 4 // request volume of every criterion in the config menu
	c40Interval = 10 * time.Second
	// c40DriftKey is the ONE canonical key of the known numEndpointsEjected drift.
	c40DriftKey = "ejected-count-drift/remove-ejected-endpoint"
	// c40ReEjectKey: second route to the same drift, found by this harness.
	c40ReEjectKey = "ejected-count-drift/re-eject-already-ejected-endpoint"
)

func init() { balancer.Register(c40StubBuilder{}) }

// ------------------------------------------------------------ environment ----

type c40World struct {
	mu      sync.Mutex
	parent  *balancer.State
	child   *c40Child
	anomaly []string
	scSeq   int
}

type c40CC struct {
	balancer.ClientConn // nil: unexpected calls panic
	w                   *c40World
	mr                  estats.MetricsRecorder
}

func (c *c40CC) UpdateState(s balancer.State) {
	c.w.mu.Lock()
	c.w.parent = &s
	c.w.mu.Unlock()
}
func (c *c40CC) ResolveNow(resolver.ResolveNowOptions)   {}
func (c *c40CC) Target() string                          { return "c40" }
func (c *c40CC) MetricsRecorder() estats.MetricsRecorder { return c.mr }
func (c *c40CC) NewSubConn(addrs []resolver.Address, opts balancer.NewSubConnOptions) (balancer.SubConn, error) {
	c.w.mu.Lock()
	c.w.scSeq++
	sc := &c40SC{w: c.w, id: c.w.scSeq, addr: addrs[0].Addr, listener: opts.StateListener}
	c.w.mu.Unlock()
	return sc, nil
}

// c40SC is the fake transport-level SubConn: it becomes READY as soon as it is
// asked to connect and reports a healthy (READY) health state to a registered
// health listener, like a channel without client-side health checking.
type c40SC struct {
	balancer.SubConn
	w        *c40World
	id       int
	addr     string
	listener func(balancer.SubConnState)

	mu       sync.Mutex
	shutdown bool
}

func (s *c40SC) Connect() {
	go func() {
		s.listener(balancer.SubConnState{ConnectivityState: connectivity.Connecting})
		s.listener(balancer.SubConnState{ConnectivityState: connectivity.Ready})
	}()
}
func (s *c40SC) Shutdown() {
	s.mu.Lock()
	already := s.shutdown
	s.shutdown = true
	s.mu.Unlock()
	if !already {
		go s.listener(balancer.SubConnState{ConnectivityState: connectivity.Shutdown})
	}
}
func (s *c40SC) RegisterHealthListener(l func(balancer.SubConnState)) {
	if l != nil {
		l(balancer.SubConnState{ConnectivityState: connectivity.Ready})
	}
}
func (s *c40SC) UpdateAddresses([]resolver.Address) {}
func (s *c40SC) GetOrBuildProducer(balancer.ProducerBuilder) (balancer.Producer, func()) {
	return nil, func() {}
}

type c40ChildCfg struct {
	serviceconfig.LoadBalancingConfig
	w *c40World
}

type c40StubBuilder struct{}

func (c40StubBuilder) Name() string { return c40StubName }
func (c40StubBuilder) Build(cc balancer.ClientConn, _ balancer.BuildOptions) balancer.Balancer {
	return &c40Child{cc: cc, scs: map[string]balancer.SubConn{}, conn: map[string]connectivity.State{}, health: map[string]connectivity.State{}, hasHealth: map[string]bool{}}
}

// c40Child is the stub child policy: one subchannel per endpoint, kept across
// resolver updates, a health listener on every READY subchannel (as pick_first
// does), and a picker that picks the endpoint named by PickInfo.FullMethodName.
type c40Child struct {
	cc balancer.ClientConn

	mu        sync.Mutex
	w         *c40World
	scs       map[string]balancer.SubConn
	conn      map[string]connectivity.State // raw connectivity seen per endpoint
	health    map[string]connectivity.State // last health state seen per endpoint
	hasHealth map[string]bool
	closed    bool
}

func (c *c40Child) UpdateClientConnState(s balancer.ClientConnState) error {
	cfg, ok := s.BalancerConfig.(*c40ChildCfg)
	if !ok {
		return fmt.Errorf("c40 stub: unexpected config %T", s.BalancerConfig)
	}
	cfg.w.mu.Lock()
	cfg.w.child = c
	cfg.w.mu.Unlock()
	c.mu.Lock()
	c.w = cfg.w
	want := map[string]bool{}
	var create []string
	for _, ep := range s.ResolverState.Endpoints {
		a := ep.Addresses[0].Addr
		want[a] = true
		if c.scs[a] == nil {
			create = append(create, a)
		}
	}
	var drop []balancer.SubConn
	for a, sc := range c.scs {
		if !want[a] {
			drop = append(drop, sc)
			delete(c.scs, a)
			delete(c.conn, a)
			delete(c.health, a)
			delete(c.hasHealth, a)
		}
	}
	c.mu.Unlock()
	for _, sc := range drop {
		sc.Shutdown()
	}
	for _, a := range create {
		a := a
		var sc balancer.SubConn
		sc, err := c.cc.NewSubConn([]resolver.Address{{Addr: a}}, balancer.NewSubConnOptions{StateListener: func(st balancer.SubConnState) { c.onState(a, sc, st) }})
		if err != nil {
			return err
		}
		c.mu.Lock()
		c.scs[a] = sc
		c.mu.Unlock()
		sc.Connect()
	}
	c.cc.UpdateState(balancer.State{ConnectivityState: connectivity.Ready, Picker: &c40Picker{c: c}})
	return nil
}

func (c *c40Child) onState(a string, sc balancer.SubConn, st balancer.SubConnState) {
	c.mu.Lock()
	cur := c.scs[a] == sc
	if cur {
		c.conn[a] = st.ConnectivityState
	}
	c.mu.Unlock()
	if cur && st.ConnectivityState == connectivity.Ready {
		sc.RegisterHealthListener(func(hs balancer.SubConnState) {
			c.mu.Lock()
			if c.scs[a] == sc {
				c.health[a] = hs.ConnectivityState
				c.hasHealth[a] = true
			}
			c.mu.Unlock()
		})
	}
}
func (c *c40Child) ResolverError(error)                                        {}
func (c *c40Child) UpdateSubConnState(balancer.SubConn, balancer.SubConnState) {}
func (c *c40Child) ExitIdle()                                                  {}
func (c *c40Child) Close() {
	c.mu.Lock()
	c.closed = true
	c.mu.Unlock()
}

type c40Picker struct{ c *c40Child }

func (p *c40Picker) Pick(info balancer.PickInfo) (balancer.PickResult, error) {
	p.c.mu.Lock()
	sc := p.c.scs[info.FullMethodName]
	p.c.mu.Unlock()
	if sc == nil {
		return balancer.PickResult{}, balancer.ErrNoSubConnAvailable
	}
	return balancer.PickResult{SubConn: sc}, nil
}

// ----------------------------------------------------------------- configs ----

type c40Cfg struct {
	name           string
	sr, fp         bool
	srMin, fpMin   uint32
	srFactor       uint32
	fpThreshold    uint32
	maxPct         uint32
	base, maxEject time.Duration
	// fixed enforcement percentages overriding the scenario's (set = true)
	fixEnf       bool
	srEnf, fpEnf uint32
}

func (c c40Cfg) enforcement(scenario uint32) (sr, fp uint32) {
	if c.fixEnf {
		return c.srEnf, c.fpEnf
	}
	return scenario, scenario
}

func (c c40Cfg) noop() bool { return !c.sr && !c.fp }

// The menu. All criteria use request volume c40Vol; interval is 10 s everywhere
// (every event happens on a 10 s grid, so the interval timer is always due
// exactly one interval after the previous firing).
var c40Menu = map[string]c40Cfg{
	"noop":     {name: "noop", maxPct: 100, base: 10 * time.Second, maxEject: 15 * time.Second},
	"fp":       {name: "fp", fp: true, fpMin: 1, fpThreshold: 50, maxPct: 100, base: 10 * time.Second, maxEject: 15 * time.Second},
	"fp-max50": {name: "fp-max50", fp: true, fpMin: 1, fpThreshold: 50, maxPct: 50, base: 10 * time.Second, maxEject: 15 * time.Second},
	"fp-max25": {name: "fp-max25", fp: true, fpMin: 2, fpThreshold: 50, maxPct: 25, base: 20 * time.Second, maxEject: 5 * time.Second},
	"sr":       {name: "sr", sr: true, srMin: 2, srFactor: 500, maxPct: 100, base: 20 * time.Second, maxEject: 5 * time.Second},
	// success-rate enforced, failure-percentage detected but never enforced
	"sr100+fp0": {name: "sr100+fp0", sr: true, srMin: 2, srFactor: 500, fp: true, fpMin: 1, fpThreshold: 50, maxPct: 100, base: 10 * time.Second, maxEject: 15 * time.Second, fixEnf: true, srEnf: 100, fpEnf: 0},
	"sr+fp":     {name: "sr+fp", sr: true, srMin: 2, srFactor: 500, fp: true, fpMin: 1, fpThreshold: 50, maxPct: 50, base: 10 * time.Second, maxEject: 15 * time.Second},
}

func (c c40Cfg) lb(w *c40World, enf uint32) *LBConfig {
	cfg := &LBConfig{
		Interval:           iserviceconfig.Duration(c40Interval),
		BaseEjectionTime:   iserviceconfig.Duration(c.base),
		MaxEjectionTime:    iserviceconfig.Duration(c.maxEject),
		MaxEjectionPercent: c.maxPct,
		ChildPolicy:        &iserviceconfig.BalancerConfig{Name: c40StubName, Config: &c40ChildCfg{w: w}},
	}
	srEnf, fpEnf := c.enforcement(enf)
	if c.sr {
		cfg.SuccessRateEjection = &SuccessRateEjection{StdevFactor: c.srFactor, EnforcementPercentage: srEnf, MinimumHosts: c.srMin, RequestVolume: c40Vol}
	}
	if c.fp {
		cfg.FailurePercentageEjection = &FailurePercentageEjection{Threshold: c.fpThreshold, EnforcementPercentage: fpEnf, MinimumHosts: c.fpMin, RequestVolume: c40Vol}
	}
	return cfg
}

// ------------------------------------------------------------------- model ----
//
// Reference model written from the statement and gRFC A50.

type c40MEp struct {
	succ, fail int64 // active bucket
	ejected    bool
	ts         time.Duration // ejection timestamp (offset from start), valid while ejected
	mult       int64
}

type c40Model struct {
	enf uint32
	cfg c40Cfg
	now time.Duration
	eps map[string]*c40MEp // CURRENT endpoints
}

func c40Sorted[V any](m map[string]V) []string {
	ks := make([]string, 0, len(m))
	for k := range m {
		ks = append(ks, k)
	}
	sort.Strings(ks)
	return ks
}

func (m *c40Model) ejectedCount() int {
	n := 0
	for _, e := range m.eps {
		if e.ejected {
			n++
		}
	}
	return n
}

func (m *c40Model) setConfig(c c40Cfg) {
	wasNoop := m.cfg.noop()
	m.cfg = c
	if c.noop() {
		// "a no-op config un-ejects everything" and resets the multipliers
		for _, e := range m.eps {
			e.ejected, e.ts, e.mult = false, 0, 0
		}
		return
	}
	if wasNoop {
		// counting (re)starts: the timer start timestamp was unset, counters are reset
		for _, e := range m.eps {
			e.succ, e.fail = 0, 0
		}
	}
}

func (m *c40Model) setEndpoints(names []string) {
	want := map[string]bool{}
	for _, n := range names {
		want[n] = true
		if m.eps[n] == nil {
			m.eps[n] = &c40MEp{}
		}
	}
	for n := range m.eps {
		if !want[n] {
			delete(m.eps, n) // a removed endpoint is forgotten, ejected or not
		}
	}
}

func (m *c40Model) calls(ep string, succ, fail int64) {
	if m.cfg.noop() {
		return // the picker does not count under a no-op config
	}
	e := m.eps[ep]
	e.succ += succ
	e.fail += fail
}

// c40Snap is one possible outcome of a tick. inc and re exist only to NAME a
// failure (differential diagnosis), never to decide whether something is one:
// inc is what a counter that is bumped on every ejection (also of an endpoint
// that is already ejected) and decremented on every un-ejection would hold, re
// is the number of such re-ejections.
type c40Snap struct {
	eps map[string]c40MEp
	inc int
	re  int
}

func (s c40Snap) clone() c40Snap {
	o := c40Snap{eps: map[string]c40MEp{}, inc: s.inc, re: s.re}
	for k, v := range s.eps {
		o.eps[k] = v
	}
	return o
}

// key identifies the endpoint-visible part of an outcome.
func (s c40Snap) key() string {
	var sb strings.Builder
	for _, n := range c40Sorted(s.eps) {
		e := s.eps[n]
		fmt.Fprintf(&sb, "%s:%v/%d/%d;", n, e.ejected, e.ts, e.mult)
	}
	return sb.String()
}

func (s c40Snap) fullKey() string { return fmt.Sprintf("%s|%d|%d", s.key(), s.inc, s.re) }

func (s c40Snap) ejected() int {
	n := 0
	for _, e := range s.eps {
		if e.ejected {
			n++
		}
	}
	return n
}

func c40Perms(xs []string) [][]string {
	if len(xs) <= 1 {
		return [][]string{append([]string(nil), xs...)}
	}
	var out [][]string
	for i := range xs {
		rest := append(append([]string(nil), xs[:i]...), xs[i+1:]...)
		for _, p := range c40Perms(rest) {
			out = append(out, append([]string{xs[i]}, p...))
		}
	}
	return out
}

// c40EjectAll applies "for each candidate: unless the ejected share of the
// current endpoints is at or above max_ejection_percent, eject it" for EVERY
// processing order and every resolution of the undecidable (exact tie)
// candidates, returning the distinct outcomes. With hypo set the gate is
// evaluated on the bump-on-every-ejection counter instead of the real share
// (the suspected defect; used only to name a mismatch).
func (m *c40Model) c40EjectAll(in []c40Snap, must, either []string, hypo bool, enf uint32) []c40Snap {
	if enf == 0 {
		return in // enforcement 0 %: the random draw in [0,100) is never below 0
	}
	seen := map[string]bool{}
	var out []c40Snap
	for _, s0 := range in {
		for mask := 0; mask < 1<<len(either); mask++ {
			cands := append([]string(nil), must...)
			for i, e := range either {
				if mask&(1<<i) != 0 {
					cands = append(cands, e)
				}
			}
			for _, order := range c40Perms(cands) {
				s := s0.clone()
				for _, n := range order {
					share := s.ejected()
					if hypo {
						share = s.inc
					}
					if int64(share)*100 >= int64(m.cfg.maxPct)*int64(len(s.eps)) {
						continue // gate closed
					}
					e := s.eps[n]
					if e.ejected {
						s.re++
					}
					s.inc++
					e.ejected, e.ts = true, m.now
					e.mult++
					s.eps[n] = e
				}
				if k := s.fullKey(); !seen[k] {
					seen[k] = true
					out = append(out, s)
				}
			}
		}
	}
	return out
}

// tick is the interval timer algorithm at time m.now. inactive = the counts
// collected since the previous tick. It returns every allowed resulting state
// and does not modify the model.
func (m *c40Model) tick(hypo bool) []c40Snap {
	type cnt struct{ s, f int64 }
	inact := map[string]cnt{}
	start := c40Snap{eps: map[string]c40MEp{}}
	for n, e := range m.eps {
		inact[n] = cnt{e.succ, e.fail}
		c := *e
		c.succ, c.fail = 0, 0 // buckets swapped: counting starts afresh
		start.eps[n] = c
	}
	start.inc = start.ejected()
	snaps := []c40Snap{start}
	srEnf, fpEnf := m.cfg.enforcement(m.enf)
	var vol []string
	for _, n := range c40Sorted(m.eps) {
		if inact[n].s+inact[n].f >= c40Vol {
			vol = append(vol, n)
		}
	}
	if m.cfg.sr && len(vol) >= int(m.cfg.srMin) && len(vol) > 0 {
		rate := map[string]*big.Rat{}
		mean := new(big.Rat)
		for _, n := range vol {
			rate[n] = big.NewRat(inact[n].s, inact[n].s+inact[n].f)
			mean.Add(mean, rate[n])
		}
		mean.Quo(mean, big.NewRat(int64(len(vol)), 1))
		variance := new(big.Rat)
		for _, n := range vol {
			d := new(big.Rat).Sub(rate[n], mean)
			variance.Add(variance, d.Mul(d, d))
		}
		variance.Quo(variance, big.NewRat(int64(len(vol)), 1))
		f := big.NewRat(int64(m.cfg.srFactor), 1000)
		rhs := new(big.Rat).Mul(variance, new(big.Rat).Mul(f, f)) // (stdev*factor)^2
		var must, either []string
		for _, n := range vol {
			// rate < mean - stdev*f  <=>  mean-rate > stdev*f
			d := new(big.Rat).Sub(mean, rate[n])
			if d.Sign() <= 0 {
				continue
			}
			switch new(big.Rat).Mul(d, d).Cmp(rhs) {
			case 1:
				must = append(must, n)
			case 0:
				either = append(either, n) // exact tie: floating point may decide either way
			}
		}
		snaps = m.c40EjectAll(snaps, must, either, hypo, srEnf)
	}
	if m.cfg.fp && len(vol) >= int(m.cfg.fpMin) {
		var must []string
		for _, n := range vol {
			if inact[n].f*100 > int64(m.cfg.fpThreshold)*(inact[n].s+inact[n].f) {
				must = append(must, n)
			}
		}
		snaps = m.c40EjectAll(snaps, must, nil, hypo, fpEnf)
	}
	// multiplier decay and un-ejection
	seen := map[string]bool{}
	var out []c40Snap
	for _, s := range snaps {
		for n, e := range s.eps {
			switch {
			case !e.ejected && e.mult > 0:
				e.mult--
			case e.ejected:
				et := m.cfg.base * time.Duration(e.mult)
				lim := m.cfg.base
				if m.cfg.maxEject > lim {
					lim = m.cfg.maxEject
				}
				if lim < et {
					et = lim
				}
				if m.now > e.ts+et {
					e.ejected, e.ts = false, 0
					s.inc--
				}
			}
			s.eps[n] = e
		}
		if k := s.fullKey(); !seen[k] {
			seen[k] = true
			out = append(out, s)
		}
	}
	return out
}

func (m *c40Model) adopt(s c40Snap) {
	for n, e := range s.eps {
		v := e
		m.eps[n] = &v
	}
}

// ------------------------------------------------------------- real side ----

type c40ImplEp struct {
	present    bool
	ejected    bool
	ts         time.Duration
	mult       int64
	succ, fail int64
}

type c40Impl struct {
	count int
	n     int
	eps   map[string]c40ImplEp
}

func c40Dump(b *outlierDetectionBalancer, t0 time.Time, names []string) c40Impl {
	b.mu.Lock()
	defer b.mu.Unlock()
	d := c40Impl{count: b.numEndpointsEjected, n: b.endpoints.Len(), eps: map[string]c40ImplEp{}}
	for _, n := range names {
		epInfo, ok := b.endpoints.Get(resolver.Endpoint{Addresses: []resolver.Address{{Addr: n}}})
		if !ok {
			continue
		}
		ab := epInfo.callCounter.activeBucket.Load()
		e := c40ImplEp{present: true, mult: epInfo.ejectionTimeMultiplier, succ: int64(ab.numSuccesses), fail: int64(ab.numFailures)}
		if !epInfo.latestEjectionTimestamp.IsZero() {
			e.ejected = true
			e.ts = epInfo.latestEjectionTimestamp.Sub(t0)
		}
		d.eps[n] = e
	}
	return d
}

var c40AllEps = []string{"e0", "e1", "e2", "e3"}

func (d c40Impl) snap() c40Snap {
	s := c40Snap{eps: map[string]c40MEp{}}
	for n, e := range d.eps {
		s.eps[n] = c40MEp{ejected: e.ejected, ts: e.ts, mult: e.mult}
	}
	return s
}

// --------------------------------------------------------------- operations ----

type c40Op struct {
	name       string
	kind       string // calls | tick | cfg | toggle
	ep         string
	succ, fail int64
	cfg        string
}

type c40Scenario struct {
	dq, dt  int // depth bound quick / thorough
	name    string
	enf     uint32
	initCfg string
	initEps []string
	ops     []c40Op
}

func c40CallOps(eps []string, kinds []string) []c40Op {
	var ops []c40Op
	for _, k := range kinds {
		for _, e := range eps {
			o := c40Op{kind: "calls", ep: e}
			switch k {
			case "fail":
				o.fail = c40Vol
			case "ok":
				o.succ = c40Vol
			case "half":
				o.succ, o.fail = c40Vol/2, c40Vol/2
			case "fail-1":
				o.fail = c40Vol - 1
			}
			o.name = fmt.Sprintf("%s:%dok+%dfail", e, o.succ, o.fail)
			ops = append(ops, o)
		}
	}
	return ops
}

func c40MkScenario(name string, enf uint32, initCfg string, initEps []string, callEps []string, kinds []string, cfgs []string, toggles []string) c40Scenario {
	sc := c40Scenario{name: name, enf: enf, initCfg: initCfg, initEps: initEps, dq: 6, dt: 9}
	sc.ops = append(sc.ops, c40Op{name: "tick", kind: "tick"})
	sc.ops = append(sc.ops, c40CallOps(callEps, kinds)...)
	for _, t := range toggles {
		sc.ops = append(sc.ops, c40Op{name: "resolver:toggle(" + t + ")", kind: "toggle", ep: t})
	}
	for _, c := range cfgs {
		sc.ops = append(sc.ops, c40Op{name: "cfg:" + c, kind: "cfg", cfg: c})
	}
	return sc
}

// ------------------------------------------------------------------ runner ----

// c40Stats are measured coverage counters (transitions in which X was observed
// on the real balancer and confirmed by the reference).
type c40Stats struct {
	ejections, unejections, gateBlocked, tfSeenByChild, noopUneject, removedEjected, ndCuts, driftCuts, reEjections, ticks atomic.Int64
}

// c40Drift collects, per canonical defect key, the shortest history showing it.
type c40Drift struct {
	mu  sync.Mutex
	rec map[string]*c40DriftRec
}

type c40DriftRec struct {
	hist []string
	scen string
	desc string
}

func (d *c40Drift) note(key, scen string, hist []string, desc string) {
	d.mu.Lock()
	defer d.mu.Unlock()
	if d.rec == nil {
		d.rec = map[string]*c40DriftRec{}
	}
	cur := d.rec[key]
	if cur == nil || len(hist) < len(cur.hist) || (len(hist) == len(cur.hist) && (scen+strings.Join(hist, ",")) < (cur.scen+strings.Join(cur.hist, ","))) {
		d.rec[key] = &c40DriftRec{hist: append([]string(nil), hist...), scen: scen, desc: desc}
	}
}

func c40Endpoints(names []string) []resolver.Endpoint {
	var out []resolver.Endpoint
	for _, n := range names {
		out = append(out, resolver.Endpoint{Addresses: []resolver.Address{{Addr: n}}})
	}
	return out
}

func c40Runner(t *testing.T, sc c40Scenario, drift *c40Drift, st *c40Stats) func(hist []int) seqx.Outcome {
	const P = "C40"
	return func(hist []int) (out seqx.Outcome) {
		synctest.Test(t, func(t *testing.T) {
			t0 := time.Now()
			w := &c40World{}
			cc := &c40CC{w: w, mr: istats.NewMetricsRecorderList(nil)}
			bal := bb{}.Build(cc, balancer.BuildOptions{})
			b := bal.(*outlierDetectionBalancer)
			defer func() {
				bal.Close()
				synctest.Wait()
			}()
			m := &c40Model{enf: sc.enf, cfg: c40Menu["noop"], eps: map[string]*c40MEp{}}
			fail := func(key, f string, a ...any) {
				out.Fails = append(out.Fails, seqx.Fail{Prop: P, Key: key, Desc: fmt.Sprintf(f, a...)})
			}
			push := func() {
				names := c40Sorted(m.eps)
				if err := bal.UpdateClientConnState(balancer.ClientConnState{
					ResolverState:  resolver.State{Endpoints: c40Endpoints(names)},
					BalancerConfig: m.cfg.lb(w, sc.enf),
				}); err != nil {
					fail("update-rejected", "UpdateClientConnState: %v", err)
				}
			}
			ndCut := false
			driftSeen := false
			var done []string
			// check compares the real balancer with the model at quiescence.
			check := func(isTick bool, removedEjected []string) {
				d := c40Dump(b, t0, c40AllEps)
				var matches []c40Snap
				if isTick {
					// the real outcome must be one of the outcomes the reference allows
					got := d.snap().key()
					correct := m.tick(false)
					distinct := map[string]bool{}
					for _, s := range correct {
						distinct[s.key()] = true
						if s.key() == got {
							matches = append(matches, s)
						}
					}
					if len(matches) == 0 {
						// differential diagnosis: is the mismatch exactly what a counter
						// that is also bumped when an already ejected endpoint is ejected
						// again would produce?
						for _, s := range m.tick(true) {
							if s.key() == got && s.re > 0 && s.inc == d.count {
								m.adopt(s)
								driftSeen = true
								drift.note(c40ReEjectKey, sc.name, done, fmt.Sprintf("numEndpointsEjected=%d but %d of the %d current endpoints are ejected after an interval in which an already ejected endpoint was ejected again (counter bumped twice for one endpoint); within the same interval the max_ejection_percent gate already used the inflated count: endpoints are {%s}, the reference allows {%s} (config %s)", d.count, d.snap().ejected(), len(m.eps), got, strings.Join(c40Sorted(distinct), "} or {"), m.cfg.name))
								return
							}
						}
						cls := "ejection-state-differs"
						if len(distinct) == 1 {
							gotSet, wantSet := c40EjSet(d.snap()), c40EjSet(correct[0])
							switch {
							case gotSet != wantSet && len(gotSet) > len(wantSet) && strings.Contains(","+gotSet+",", ","+wantSet+","):
								cls = "ejected-though-rule-says-no"
							case gotSet != wantSet && len(gotSet) < len(wantSet) && strings.Contains(","+wantSet+",", ","+gotSet+","):
								cls = "not-ejected-though-rule-says-yes"
							case gotSet != wantSet:
								cls = "ejection-set-differs"
							default:
								cls = "ejection-time-or-multiplier-differs"
							}
						}
						fail(cls, "after the interval tick the endpoints are (name:ejected/timestamp/multiplier) {%s}; the A50 reference allows {%s} (config %s, enforcement %d%%, numEndpointsEjected=%d)", got, strings.Join(c40Sorted(distinct), "} or {"), m.cfg.name, sc.enf, d.count)
						return
					}
					// measured coverage: what this tick did (only when the outcome is unique)
					if len(distinct) == 1 {
						st.ticks.Add(1)
						for n, e := range matches[0].eps {
							was := m.eps[n]
							if e.ejected && (!was.ejected || e.ts != was.ts) {
								st.ejections.Add(1)
							}
							if !e.ejected && was.ejected {
								st.unejections.Add(1)
							}
						}
						if matches[0].re > 0 {
							st.reEjections.Add(1)
						}
						if c40GateBlocked(m, matches[0]) {
							st.gateBlocked.Add(1)
						}
					}
					m.adopt(matches[0])
					if len(distinct) > 1 {
						ndCut = true
						st.ndCuts.Add(1)
					}
				}
				// endpoint set, per-endpoint ejection state and counters
				if len(d.eps) != len(m.eps) {
					fail("endpoint-set-differs", "real endpoints %v, reference %v", c40Sorted(d.eps), c40Sorted(m.eps))
					return
				}
				for _, n := range c40Sorted(m.eps) {
					me, ie := m.eps[n], d.eps[n]
					if !ie.present {
						fail("endpoint-set-differs", "endpoint %s missing", n)
						continue
					}
					if me.ejected != ie.ejected {
						if ie.ejected {
							fail("ejected-though-rule-says-no", "endpoint %s is ejected, the reference says it is not (config %s)", n, m.cfg.name)
						} else {
							fail("not-ejected-though-rule-says-yes", "endpoint %s is not ejected, the reference says it is (config %s)", n, m.cfg.name)
						}
						continue
					}
					if me.ejected && me.ts != ie.ts || me.mult != ie.mult {
						fail("ejection-time-or-multiplier-differs", "endpoint %s: timestamp/multiplier %v/%d, reference %v/%d", n, ie.ts, ie.mult, me.ts, me.mult)
					}
					if me.succ != ie.succ || me.fail != ie.fail {
						fail("call-counter-differs", "endpoint %s: active bucket %d ok/%d failed, reference %d/%d", n, ie.succ, ie.fail, me.succ, me.fail)
					}
				}
				if len(out.Fails) > 0 {
					return
				}
				// what the child sees
				w.mu.Lock()
				ch := w.child
				w.mu.Unlock()
				if ch == nil {
					fail("no-child", "child policy not built")
					return
				}
				ch.mu.Lock()
				for _, n := range c40Sorted(m.eps) {
					if ch.conn[n] != connectivity.Ready || !ch.hasHealth[n] {
						fail("harness-subconn-not-ready", "subchannel of %s: connectivity %v health-known=%v", n, ch.conn[n], ch.hasHealth[n])
						continue
					}
					h := ch.health[n]
					if m.eps[n].ejected && h == connectivity.TransientFailure {
						st.tfSeenByChild.Add(1)
					}
					if m.eps[n].ejected && h != connectivity.TransientFailure {
						fail("ejected-not-tf-to-child", "endpoint %s is ejected but the child sees its subchannel as %v", n, h)
					}
					if !m.eps[n].ejected && h != connectivity.Ready {
						fail("unejected-not-restored-to-child", "endpoint %s is not ejected but the child sees its subchannel as %v", n, h)
					}
				}
				ch.mu.Unlock()
				// the internal counter used by the max-ejection gate
				if want := m.ejectedCount(); d.count != want {
					reEject := false
					for _, s := range matches {
						if s.re > 0 && s.inc == d.count {
							reEject = true
						}
					}
					switch {
					case len(removedEjected) > 0 && d.count == want+len(removedEjected):
						driftSeen = true
						drift.note(c40DriftKey, sc.name, done, fmt.Sprintf("numEndpointsEjected=%d but %d of the %d current endpoints are ejected, after a resolver update removed the ejected endpoint(s) %v: the max_ejection_percent gate is now evaluated against a stale count", d.count, want, len(m.eps), removedEjected))
					case reEject:
						driftSeen = true
						drift.note(c40ReEjectKey, sc.name, done, fmt.Sprintf("numEndpointsEjected=%d but %d of the %d current endpoints are ejected after an interval in which an already ejected endpoint was ejected again: ejectEndpoint bumps the counter on every call but un-ejection decrements it once, so the max_ejection_percent gate drifts upwards for good. Routes: both algorithms eject the same endpoint in one interval (e.g. [sr-enf100] e0 4 failed ; e1 4 ok ; cfg:sr+fp ; tick), or an ejected endpoint still completes enough failing calls and is ejected again in a later interval (config %s)", d.count, want, len(m.eps), m.cfg.name))
					default:
						fail("ejected-count-differs", "numEndpointsEjected=%d but %d of the %d current endpoints are ejected (config %s)", d.count, want, len(m.eps), m.cfg.name)
					}
				}
			}

			// set-up (not an event): initial config + endpoints
			m.setEndpoints(sc.initEps)
			m.setConfig(c40Menu[sc.initCfg])
			push()
			synctest.Wait()
			check(false, nil)
			if len(out.Fails) > 0 {
				out.Key, out.Terminal = "setup-failed", true
				return
			}

			cutKey := ""
			for _, h := range hist {
				op := sc.ops[h]
				preKey := c40ModelKey(m) + "|" + op.name
				isTick := false
				var removedEjected []string
				switch op.kind {
				case "calls":
					if m.eps[op.ep] == nil {
						out.Skip, out.Key = true, "n/a"
						return
					}
					w.mu.Lock()
					p := w.parent
					w.mu.Unlock()
					if p == nil || p.Picker == nil {
						fail("no-picker", "no picker at the parent")
						break
					}
					for i := int64(0); i < op.succ+op.fail; i++ {
						res, err := p.Picker.Pick(balancer.PickInfo{FullMethodName: op.ep})
						if err != nil || res.Done == nil {
							fail("pick-failed", "pick for %s: %v", op.ep, err)
							break
						}
						var e error
						if i >= op.succ {
							e = errors.New("rpc failed")
						}
						res.Done(balancer.DoneInfo{Err: e})
					}
					m.calls(op.ep, op.succ, op.fail)
				case "tick":
					if m.cfg.noop() {
						// no timer under a no-op config and nothing time-dependent left
						out.Skip, out.Key = true, "n/a"
						return
					}
					m.now += c40Interval
					isTick = true
					time.Sleep(c40Interval)
				case "cfg":
					if op.cfg == m.cfg.name {
						out.Skip, out.Key = true, "n/a"
						return
					}
					if c40Menu[op.cfg].noop() && m.ejectedCount() > 0 {
						st.noopUneject.Add(1)
					}
					m.setConfig(c40Menu[op.cfg])
					push()
				case "toggle":
					names := c40Sorted(m.eps)
					if m.eps[op.ep] != nil {
						if len(names) == 1 {
							out.Skip, out.Key = true, "n/a"
							return
						}
						if m.eps[op.ep].ejected {
							removedEjected = append(removedEjected, op.ep)
							st.removedEjected.Add(1)
						}
						var keep []string
						for _, n := range names {
							if n != op.ep {
								keep = append(keep, n)
							}
						}
						names = keep
					} else {
						names = append(names, op.ep)
					}
					m.setEndpoints(names)
					push()
				}
				done = append(done, op.name)
				synctest.Wait()
				if len(out.Fails) == 0 {
					check(isTick, removedEjected)
				}
				if driftSeen {
					st.driftCuts.Add(1)
					cutKey = "CUT:count-drift|" + preKey
				} else if ndCut {
					cutKey = "CUT:order-dependent|" + preKey
				}
				if len(out.Fails) > 0 || driftSeen || ndCut {
					out.Terminal = true
					break
				}
			}
			// canonical key
			if cutKey != "" {
				// the state after a cut may depend on map iteration order inside the
				// balancer: key it by what led to it (such states are never extended)
				out.Key = cutKey
				out.Obs = "count-drift(cut)"
				if ndCut {
					out.Obs = "order-dependent-outcome(cut)"
				}
				return
			}
			var sb strings.Builder
			d := c40Dump(b, t0, c40AllEps)
			sb.WriteString(c40ModelKey(m))
			fmt.Fprintf(&sb, "|R:n=%d,c=%d;", d.n, d.count)
			for _, n := range c40Sorted(d.eps) {
				e := d.eps[n]
				age := time.Duration(0)
				if e.ejected {
					age = time.Since(t0) - e.ts
				}
				fmt.Fprintf(&sb, "%s=%d/%d,%v,%d,%d;", n, e.succ, e.fail, e.ejected, age/c40Interval, e.mult)
			}
			b.mu.Lock()
			fmt.Fprintf(&sb, "noop=%v,timer=%v", b.noopConfig(), !b.timerStartTime.IsZero())
			b.mu.Unlock()
			out.Obs = fmt.Sprintf("cfg=%s n=%d ejected=%d", m.cfg.name, len(m.eps), m.ejectedCount())
			out.Key = sb.String()
		})
		return out
	}
}

// c40GateBlocked reports whether the max-ejection gate kept at least one
// candidate from being ejected in the tick that led from m to got.
func c40GateBlocked(m *c40Model, got c40Snap) bool {
	open := *m
	open.cfg.maxPct = 101 // never reached: gate always open
	for _, s := range open.tick(false) {
		if s.ejected() > got.ejected() || s.re > got.re {
			return true
		}
	}
	return false
}

func c40ModelKey(m *c40Model) string {
	var sb strings.Builder
	fmt.Fprintf(&sb, "cfg=%s;M:", m.cfg.name)
	for _, n := range c40Sorted(m.eps) {
		e := m.eps[n]
		age := time.Duration(0)
		if e.ejected {
			age = m.now - e.ts
		}
		fmt.Fprintf(&sb, "%s=%d/%d,%v,%d,%d;", n, e.succ, e.fail, e.ejected, age/c40Interval, e.mult)
	}
	return sb.String()
}

func c40EjSet(s c40Snap) string {
	var xs []string
	for _, n := range c40Sorted(s.eps) {
		if s.eps[n].ejected {
			xs = append(xs, n)
		}
	}
	return strings.Join(xs, ",")
}

func c40Names(ops []c40Op) []string {
	out := make([]string, len(ops))
	for i, o := range ops {
		out[i] = o.name
	}
	return out
}

func c40Scenarios(thorough bool) []c40Scenario {
	e3 := []string{"e0", "e1", "e2"}
	kindsQ := []string{"fail", "ok", "half", "fail-1"}
	return []c40Scenario{
		// failure-percentage + the max-ejection gate + removal/re-adding of (ejected) endpoints
		c40MkScenario("fp-enf100", 100, "fp-max50", e3, []string{"e0", "e1"}, kindsQ, []string{"noop", "fp", "fp-max50"}, []string{"e0", "e1", "e3"}),
		// success-rate criterion (mean/stdev over the endpoints with enough volume)
		c40MkScenario("sr-enf100", 100, "sr", e3, e3, []string{"fail", "ok", "half"}, []string{"noop", "sr+fp"}, []string{"e0", "e3"}),
		// 4 endpoints, tight gate (25 %), min hosts 2, base > max ejection time
		c40MkScenario("gate25-enf100", 100, "fp-max25", []string{"e0", "e1", "e2", "e3"}, e3, []string{"fail", "ok"}, []string{"fp", "sr"}, []string{"e0", "e3"}),
		// enforcement 0 %: nothing may ever be ejected, except under the one config
		// that enforces success-rate at 100 % next to failure-percentage at 0 %
		c40MkScenario("enf0-or-sr100fp0", 0, "sr+fp", e3, e3, []string{"fail", "ok"}, []string{"noop", "fp", "sr", "sr100+fp0"}, []string{"e0"}),
		// long histories over a small alphabet: repeated ejection / un-ejection of
		// one endpoint, so multipliers >= 2, their decay and both branches of
		// min(base x multiplier, max(base, max_ejection_time)) are reached
		func() c40Scenario {
			sc := c40MkScenario("unej-enf100", 100, "fp", []string{"e0", "e1"}, nil, nil, []string{"noop", "fp", "sr"}, nil)
			sc.ops = append(sc.ops[:1:1], append(append(c40CallOps([]string{"e0"}, []string{"fail", "ok"}), c40CallOps([]string{"e1"}, []string{"ok"})...), sc.ops[1:]...)...)
			sc.dq, sc.dt = 11, 14
			return sc
		}(),
	}
}

func TestVerif_C40_Outlier(t *testing.T) {
	const P = "C40"
	r := vk.Start(t, "c40_outlier", "model_checking", P)
	defer r.Finish()
	r.Rule(P, "breadth-first over ALL event histories up to the depth bound (6 quick / 9 thorough; 11 / 14 for the small-alphabet un-ejection scenario) in 5 scenarios (alphabet restrictions of: bulk call results per endpoint {4 ok, 4 failed, 2+2, 3 failed} injected through the Done callback of the real wrapped picker; interval tick = advance virtual time by the interval; config change among {no-op, failure-percentage, failure-percentage with max_ejection_percent 50 / 25, success-rate, both, success-rate enforced + failure-percentage unenforced}; resolver update toggling membership of one endpoint of {e0..e3}, incl. a currently ejected one); enforcement 100 % and 0 %. Each history runs on a fresh real outlier-detection balancer (built through its builder, stub child policy with one READY subchannel + health listener per endpoint) in a synctest bubble next to an exact-arithmetic reference A50 model; after every event: per-endpoint ejected/timestamp/multiplier/active counters equal the model both ways, the child sees TRANSIENT_FAILURE exactly for ejected endpoints, numEndpointsEjected == |ejected ∩ current endpoints|. A state = real private state (per-endpoint counters, ejection age, multiplier, numEndpointsEjected, timer armed) + model state; distinct states are the non-trivial cases")
	r.Assume(P, "enforcement percentages 100 and 0 only (also mixed per algorithm), so the math/rand/v2 draw (rand.Int32N(100), no seam in the package) cannot influence the result; every event happens on the 10 s interval grid; subchannels are READY with a registered health listener before they can be ejected")
	r.Assume(P, "when the A50 outcome depends on the (unspecified, map-ordered) processing order of several candidates under the max-ejection gate, or on an exact success-rate tie, the real outcome must be one of the allowed ones and the history is not extended (counted as outcome 'order-dependent-outcome(cut)')")
	r.Assume(P, "failure_percentage minimum_hosts is read as 'endpoints with at least request_volume' (current A50 text)")
	drift := &c40Drift{}
	st := &c40Stats{}
	defer func() {
		for k, v := range map[string]*atomic.Int64{"ticks_checked": &st.ticks, "ejections_confirmed": &st.ejections, "unejections_confirmed": &st.unejections, "ticks_where_max_ejection_gate_blocked_a_candidate": &st.gateBlocked, "ejected_endpoint_seen_as_TF_by_child": &st.tfSeenByChild, "noop_config_unejecting": &st.noopUneject, "resolver_updates_removing_an_ejected_endpoint": &st.removedEjected, "order_dependent_ticks_cut": &st.ndCuts, "histories_cut_at_count_drift": &st.driftCuts, "ticks_re_ejecting_an_ejected_endpoint": &st.reEjections} {
			r.AddInt(P, k, v.Load())
		}
	}()
	for i, sc := range c40Scenarios(r.Thorough()) {
		if !r.Mine(i) && r.ReplayFile() == "" {
			continue
		}
		seqx.BFS(r, []string{P}, seqx.Config{
			Name: sc.name, Ops: c40Names(sc.ops), MaxDepth: r.Pick(sc.dq, sc.dt), Parallel: 4,
			Congruence: r.Thorough(), CongruenceMax: 100, MinStates: 50,
			Run: c40Runner(t, sc, drift, st),
		})
	}
	drift.mu.Lock()
	defer drift.mu.Unlock()
	for _, key := range c40Sorted(drift.rec) {
		rec := drift.rec[key]
		r.Violation(P, key, rec.desc+"\n  shortest history: ["+rec.scen+"] "+strings.Join(rec.hist, " ; "),
			map[string]any{"scenario": rec.scen, "ops": rec.hist})
	}
}
