//go:build verif

package authz

// C48 leg 2: every SDK authorization policy the translator accepts is enforced
// as written: a request is denied if it matches any deny rule and otherwise
// allowed exactly when it matches some allow rule.
//
// Policies are held as plain data (c48bPolicy), rendered to JSON by the
// harness, handed to authz.NewStatic, and every request is pushed through the
// resulting interceptor (unary and stream entry points).  The reference
// evaluator c48bDecide reads the same data and never looks at the translated
// RBAC protos.

import (
	"context"
	"crypto/tls"
	"crypto/x509"
	"crypto/x509/pkix"
	"encoding/json"
	"fmt"
	"net"
	"net/url"
	"runtime"
	"runtime/debug"
	"sort"
	"strings"
	"sync"
	"sync/atomic"
	"testing"

	"google.golang.org/grpc"
	"google.golang.org/grpc/codes"
	"google.golang.org/grpc/credentials"
	icredentials "google.golang.org/grpc/internal/credentials"
	"google.golang.org/grpc/internal/transport"
	"google.golang.org/grpc/internal/verif/vk"
	"google.golang.org/grpc/metadata"
	grpcpeer "google.golang.org/grpc/peer"
	"google.golang.org/grpc/status"
)

const c48bP = "C48"

// ---------------------------------------------------------------------------
// SDK policy as data + JSON rendering
// ---------------------------------------------------------------------------

type c48bHeader struct {
	Key    *string  `json:"key,omitempty"`
	Values []string `json:"values,omitempty"`
}

type c48bSource struct {
	Principals []string `json:"principals,omitempty"`
}

type c48bRequest struct {
	Paths   []string     `json:"paths,omitempty"`
	Headers []c48bHeader `json:"headers,omitempty"`
}

type c48bRule struct {
	Name    *string      `json:"name,omitempty"`
	Source  *c48bSource  `json:"source,omitempty"`
	Request *c48bRequest `json:"request,omitempty"`
}

type c48bPolicy struct {
	Name  *string    `json:"name,omitempty"`
	Deny  []c48bRule `json:"deny_rules,omitempty"`
	Allow []c48bRule `json:"allow_rules,omitempty"`
}

func c48bS(s string) *string { return &s }

func (p *c48bPolicy) JSON() string {
	b, err := json.Marshal(p)
	if err != nil {
		panic(err)
	}
	return string(b)
}

// c48bBody is the matching part of a rule.
type c48bBody struct {
	Principals []string
	Paths      []string
	Headers    []c48bHeader
}

func c48bMkRule(name string, b c48bBody) c48bRule {
	r := c48bRule{Name: c48bS(name)}
	if len(b.Principals) > 0 {
		r.Source = &c48bSource{Principals: b.Principals}
	}
	if len(b.Paths) > 0 || len(b.Headers) > 0 {
		r.Request = &c48bRequest{Paths: b.Paths, Headers: b.Headers}
	}
	return r
}

// ---------------------------------------------------------------------------
// requests (same shape as leg 1)
// ---------------------------------------------------------------------------

type c48bAddr struct {
	IP   string
	Port int
}

type c48bReq struct {
	Name    string
	Method  string
	MD      map[string][]string
	Peer    c48bAddr
	Local   c48bAddr
	TLS     string
	URIs    []string
	DNS     []string
	Subject string
	ctx     context.Context
}

type c48bTLSState struct {
	name    string
	uris    []string
	dns     []string
	subject string
}

var c48bTLSStates = []c48bTLSState{
	{name: "none"},
	{name: "uri", uris: []string{"spiffe://q/r", "spiffe://a/b"}, subject: "CN=subj"},
	{name: "uri2", uris: []string{"spiffe://c/b"}, subject: "CN=subj"},
	{name: "dns", dns: []string{"y", "x"}, subject: "CN=subj"},
	{name: "subj", subject: "CN=subj"},
	{name: "uri+dns", uris: []string{"spiffe://a/z"}, dns: []string{"x"}, subject: "CN=subj"},
	{name: "nocert"},
}

var c48bHeaderMaps = []map[string][]string{
	{"k": {"v1"}},
	{"k": {"v2", "w"}, "j": {"a"}},
}

type c48bConn struct {
	net.Conn
	local, remote net.Addr
}

func (c *c48bConn) LocalAddr() net.Addr  { return c.local }
func (c *c48bConn) RemoteAddr() net.Addr { return c.remote }

type c48bTStream struct{ method string }

func (s *c48bTStream) Method() string               { return s.method }
func (s *c48bTStream) SetHeader(metadata.MD) error  { return nil }
func (s *c48bTStream) SendHeader(metadata.MD) error { return nil }
func (s *c48bTStream) SetTrailer(metadata.MD) error { return nil }

// c48bSStream is the grpc.ServerStream handed to StreamInterceptor.
type c48bSStream struct {
	grpc.ServerStream
	ctx context.Context
}

func (s *c48bSStream) Context() context.Context { return s.ctx }

func c48bBuildCtx(q *c48bReq) context.Context {
	tcp := func(a c48bAddr) *net.TCPAddr { return &net.TCPAddr{IP: net.ParseIP(a.IP), Port: a.Port} }
	local, remote := tcp(q.Local), tcp(q.Peer)
	ctx := transport.SetConnection(context.Background(), &c48bConn{local: local, remote: remote})
	p := &grpcpeer.Peer{Addr: remote, LocalAddr: local}
	if q.TLS != "none" {
		st := tls.ConnectionState{HandshakeComplete: true, Version: tls.VersionTLS13}
		if q.TLS != "nocert" {
			cert := &x509.Certificate{Subject: pkix.Name{CommonName: "subj"}, DNSNames: append([]string(nil), q.DNS...)}
			for _, u := range q.URIs {
				pu, err := url.Parse(u)
				if err != nil {
					panic(err)
				}
				cert.URIs = append(cert.URIs, pu)
			}
			st.PeerCertificates = []*x509.Certificate{cert}
		}
		p.AuthInfo = credentials.TLSInfo{State: st, CommonAuthInfo: credentials.CommonAuthInfo{SecurityLevel: credentials.PrivacyAndIntegrity}, SPIFFEID: icredentials.SPIFFEIDFromState(st)}
	}
	ctx = grpcpeer.NewContext(ctx, p)
	md := metadata.MD{}
	for k, v := range q.MD {
		md[k] = append([]string(nil), v...)
	}
	ctx = metadata.NewIncomingContext(ctx, md)
	return grpc.NewContextWithServerTransportStream(ctx, &c48bTStream{method: q.Method})
}

func c48bRequests(full bool) []*c48bReq {
	peers := []c48bAddr{{"10.1.2.3", 80}, {"11.0.0.1", 81}, {"::1", 80}}
	locals := peers
	if !full {
		peers, locals = []c48bAddr{{"10.1.2.3", 80}, {"::1", 80}}, []c48bAddr{{"11.0.0.1", 81}}
	}
	var out []*c48bReq
	for _, m := range []string{"/s/m", "/s/x"} {
		for hi, h := range c48bHeaderMaps {
			for _, pa := range peers {
				for _, la := range locals {
					for _, ts := range c48bTLSStates {
						q := &c48bReq{
							Name:   fmt.Sprintf("%s h%d peer=%s local=%s tls=%s", m, hi, net.JoinHostPort(pa.IP, fmt.Sprint(pa.Port)), net.JoinHostPort(la.IP, fmt.Sprint(la.Port)), ts.name),
							Method: m, MD: h, Peer: pa, Local: la, TLS: ts.name, URIs: ts.uris, DNS: ts.dns, Subject: ts.subject,
						}
						q.ctx = c48bBuildCtx(q)
						out = append(out, q)
					}
				}
			}
		}
	}
	return out
}

// ---------------------------------------------------------------------------
// reference evaluator of the SDK policy semantics
// ---------------------------------------------------------------------------

// c48bPat: "*" = any non-empty value, "p*" = prefix, "*s" = suffix, else exact.
func c48bPat(p, s string) bool {
	switch {
	case p == "*":
		return s != ""
	case strings.HasSuffix(p, "*"):
		return strings.HasPrefix(s, p[:len(p)-1])
	case strings.HasPrefix(p, "*"):
		return strings.HasSuffix(s, p[1:])
	}
	return s == p
}

func c48bAnyPat(ps []string, s string) bool {
	for _, p := range ps {
		if c48bPat(p, s) {
			return true
		}
	}
	return false
}

func c48bRuleMatches(r *c48bRule, q *c48bReq) bool {
	if r.Source != nil && len(r.Source.Principals) > 0 {
		if q.TLS == "none" {
			return false
		}
		ids := q.URIs
		if len(ids) == 0 {
			ids = q.DNS
		}
		if len(ids) == 0 {
			ids = []string{q.Subject}
		}
		ok := false
		for _, id := range ids {
			if c48bAnyPat(r.Source.Principals, id) {
				ok = true
			}
		}
		if !ok {
			return false
		}
	}
	if r.Request != nil {
		if len(r.Request.Paths) > 0 && !c48bAnyPat(r.Request.Paths, q.Method) {
			return false
		}
		for _, h := range r.Request.Headers { // every listed header must match
			vs, present := q.MD[strings.ToLower(*h.Key)]
			if !present || !c48bAnyPat(h.Values, strings.Join(vs, ",")) {
				return false
			}
		}
	}
	return true
}

// c48bDecide: denied if some deny rule matches, otherwise allowed exactly when
// some allow rule matches.
func c48bDecide(p *c48bPolicy, q *c48bReq) (allowed bool, class string) {
	for i := range p.Deny {
		if c48bRuleMatches(&p.Deny[i], q) {
			return false, "denied-by-deny-rule"
		}
	}
	for i := range p.Allow {
		if c48bRuleMatches(&p.Allow[i], q) {
			return true, "allowed-by-allow-rule"
		}
	}
	return false, "denied-no-allow-rule"
}

// c48bLastWins is NOT the oracle: it is only used to give violations that are
// explained by "a later rule with the same name replaces the earlier one" one
// stable key instead of thousands.
func c48bLastWins(p *c48bPolicy) (*c48bPolicy, bool) {
	changed := false
	dedupe := func(rs []c48bRule) []c48bRule {
		var out []c48bRule
		for i, r := range rs {
			shadowed := false
			for j := i + 1; j < len(rs); j++ {
				if r.Name != nil && rs[j].Name != nil && *r.Name == *rs[j].Name {
					shadowed = true
				}
			}
			if shadowed {
				changed = true
				continue
			}
			out = append(out, r)
		}
		return out
	}
	return &c48bPolicy{Name: p.Name, Deny: dedupe(p.Deny), Allow: dedupe(p.Allow)}, changed
}

// ---------------------------------------------------------------------------
// runner
// ---------------------------------------------------------------------------

type c48bViol struct {
	idx  int
	seq  int
	key  string
	desc string
	rp   c48bReplay
}

type c48bReplay struct {
	Policy string     `json:"policy"` // the JSON text given to NewStatic
	Data   c48bPolicy `json:"data"`
	Req    string     `json:"req"`
}

type c48bStats struct {
	evals, policies, accepted, rejected, nontrivial int64
	outcomes                                        map[string]int64
	viols                                           []c48bViol
}

func c48bNewStats() *c48bStats { return &c48bStats{outcomes: map[string]int64{}} }

type c48bRunner struct {
	r    *vk.Run
	reqs []*c48bReq
}

func c48bCall(f func() error) (err error, pan any) {
	defer func() {
		if p := recover(); p != nil {
			pan = p
		}
	}()
	return f(), nil
}

func c48bNew(js string) (i *StaticInterceptor, err error, pan any) {
	defer func() {
		if p := recover(); p != nil {
			pan = p
		}
	}()
	i, err = NewStatic(js)
	return
}

// viol keeps, per worker, the first (lowest enumeration index) case of each
// distinct key, for at most 40 keys.
func (st *c48bStats) viol(idx int, key, desc string, rp c48bReplay) {
	for _, v := range st.viols {
		if v.key == key {
			return
		}
	}
	if len(st.viols) < 40 {
		st.viols = append(st.viols, c48bViol{idx: idx, seq: len(st.viols), key: key, desc: desc, rp: rp})
	}
}

// check: build the interceptor twice (determinism), then compare every request.
// evalOK=false: the policy contains a header key for which the SDK semantics
// define no meaning (pseudo / hop-by-hop), only determinism is checked.
func (x *c48bRunner) check(layer string, idx int, p *c48bPolicy, js string, evalOK bool, only string, st *c48bStats) {
	st.policies++
	i1, e1, p1 := c48bNew(js)
	i2, e2, p2 := c48bNew(js)
	rp := c48bReplay{Policy: js, Data: *p}
	if p1 != nil || p2 != nil {
		st.viol(idx, "authz NewStatic panic :: "+js, fmt.Sprintf("[%s] NewStatic(%s) panicked: %v / %v", layer, js, p1, p2), rp)
		return
	}
	if (e1 == nil) != (e2 == nil) || (e1 != nil && e1.Error() != e2.Error()) {
		st.viol(idx, "authz nondeterministic translation :: "+js, fmt.Sprintf("[%s] NewStatic(%s) twice: first err=%v, second err=%v", layer, js, e1, e2), rp)
		return
	}
	if e1 != nil {
		st.rejected++
		st.outcomes["policy-rejected"]++
		return
	}
	st.accepted++
	if !evalOK {
		st.outcomes["policy-accepted-not-evaluated"]++
		return
	}
	lw, hasDup := c48bLastWins(p)
	sawA, sawD := false, false
	for _, q := range x.reqs {
		if only != "" && q.Name != only {
			continue
		}
		want, class := c48bDecide(p, q)
		st.evals++
		st.outcomes[class]++
		if want {
			sawA = true
		} else {
			sawD = true
		}
		for k, ic := range []*StaticInterceptor{i1, i2} {
			for _, entry := range []string{"unary", "stream"} {
				if k == 1 && (entry == "stream" || layer == "L_lists") {
					continue // the second build is compared on the unary path of the R and E layers only
				}
				called := false
				err, pan := c48bCall(func() error {
					if entry == "unary" {
						_, err := ic.UnaryInterceptor(q.ctx, nil, &grpc.UnaryServerInfo{FullMethod: q.Method}, func(context.Context, any) (any, error) { called = true; return nil, nil })
						return err
					}
					return ic.StreamInterceptor(nil, &c48bSStream{ctx: q.ctx}, &grpc.StreamServerInfo{FullMethod: q.Method}, func(any, grpc.ServerStream) error { called = true; return nil })
				})
				got := "allowed"
				switch {
				case pan != nil:
					got = fmt.Sprintf("panic(%v)", pan)
				case err != nil && status.Code(err) == codes.PermissionDenied && !called:
					got = "denied"
				case err != nil || !called:
					got = fmt.Sprintf("error(%v, handler called=%v)", err, called)
				}
				wantS := "denied"
				if want {
					wantS = "allowed"
				}
				if got == wantS {
					continue
				}
				key := fmt.Sprintf("authz %s :: %s :: %s", js, q.Name, entry)
				if hasDup && (got == "allowed" || got == "denied") {
					if lwWant, _ := c48bDecide(lw, q); lwWant == (got == "allowed") {
						key = fmt.Sprintf("authz repeated-rule-name: earlier same-named rule ignored, want=%s got=%s", wantS, got)
					}
				}
				rp.Req = q.Name
				st.viol(idx, key, fmt.Sprintf("[%s] policy %s ; request {method=%s md=%v tls=%s uris=%v dns=%v subject=%q peer=%s}: SDK semantics say %s (%s), %s interceptor #%d says %s",
					layer, js, q.Method, q.MD, q.TLS, q.URIs, q.DNS, q.Subject, q.Peer.IP, wantS, class, entry, k+1, got), rp)
			}
		}
	}
	if sawA && sawD {
		st.nontrivial++
	}
}

func (x *c48bRunner) par(n int, sharded bool, f func(i int, st *c48bStats)) *c48bStats {
	total := c48bNewStats()
	var next atomic.Int64
	var wg sync.WaitGroup
	var tm sync.Mutex
	const chunk = 16
	for k := 0; k < runtime.GOMAXPROCS(0); k++ {
		wg.Add(1)
		go func() {
			defer wg.Done()
			st := c48bNewStats()
			for {
				lo := int(next.Add(chunk)) - chunk
				if lo >= n {
					break
				}
				if sharded && !x.r.Mine(lo/chunk) {
					continue
				}
				for i := lo; i < lo+chunk && i < n; i++ {
					f(i, st)
				}
			}
			tm.Lock()
			total.evals += st.evals
			total.policies += st.policies
			total.accepted += st.accepted
			total.rejected += st.rejected
			total.nontrivial += st.nontrivial
			for k, v := range st.outcomes {
				total.outcomes[k] += v
			}
			total.viols = append(total.viols, st.viols...)
			tm.Unlock()
		}()
	}
	wg.Wait()
	return total
}

// ---------------------------------------------------------------------------
// grammar
// ---------------------------------------------------------------------------

// c48bLists: lists of length lo..2 over set (pairs ordered when ord).
func c48bLists(set []string, lo int, ord bool) [][]string {
	var out [][]string
	if lo == 0 {
		out = append(out, nil)
	}
	for _, a := range set {
		out = append(out, []string{a})
	}
	for i, a := range set {
		for j, b := range set {
			if !ord && j < i {
				continue
			}
			out = append(out, []string{a, b})
		}
	}
	return out
}

var c48bPrincipalPats = []string{"*", "spiffe://a/*", "*/b", "x"}
var c48bPathPats = []string{"/s/*", "*/m", "/s/m", "*"}
var c48bHeaderPats = []string{"v1", "v*", "*w", "*"}

func c48bBodies(ord bool) []c48bBody {
	var hs [][]c48bHeader
	hs = append(hs, nil)
	for _, key := range []string{"k", "K"} {
		for _, vs := range c48bLists(c48bHeaderPats, 1, ord) {
			hs = append(hs, []c48bHeader{{Key: c48bS(key), Values: vs}})
		}
	}
	var out []c48bBody
	for _, pr := range c48bLists(c48bPrincipalPats, 0, ord) {
		for _, pa := range c48bLists(c48bPathPats, 0, ord) {
			for _, h := range hs {
				out = append(out, c48bBody{Principals: pr, Paths: pa, Headers: h})
			}
		}
	}
	return out
}

func c48bBodyMenu() []c48bBody {
	return []c48bBody{
		{},
		{Paths: []string{"/s/m"}},
		{Principals: []string{"*"}},
		{Principals: []string{"spiffe://a/*"}, Paths: []string{"/s/*"}},
		{Paths: []string{"*/m"}, Headers: []c48bHeader{{Key: c48bS("k"), Values: []string{"v1"}}}},
		{Principals: []string{"*/b", "x"}},
		{Headers: []c48bHeader{{Key: c48bS("K"), Values: []string{"v*"}}}, Principals: []string{"x"}},
		{Principals: []string{"spiffe://a/*"}, Paths: []string{"*"}, Headers: []c48bHeader{{Key: c48bS("j"), Values: []string{"*"}}}},
	}
}

// c48bRuleLists: every list of 0..2 rules, a rule = (name in names) x (body in menu).
func c48bRuleLists(names []string, menu []c48bBody) [][]c48bRule {
	var rules []c48bRule
	for _, b := range menu {
		for _, n := range names {
			rules = append(rules, c48bMkRule(n, b))
		}
	}
	out := [][]c48bRule{nil}
	for _, a := range rules {
		out = append(out, []c48bRule{a})
	}
	for _, a := range rules {
		for _, b := range rules {
			out = append(out, []c48bRule{a, b})
		}
	}
	return out
}

type c48bEdge struct {
	p      *c48bPolicy
	raw    bool // js is the literal text handed to NewStatic
	js     string
	evalOK bool
}

// c48bEdges: policies with one odd/invalid element each.
func c48bEdges() []c48bEdge {
	okRule := c48bMkRule("a", c48bBody{Paths: []string{"/s/m"}})
	allRule := c48bMkRule("all", c48bBody{})
	hdr := func(key *string, vals []string) c48bRule {
		return c48bRule{Name: c48bS("h"), Request: &c48bRequest{Headers: []c48bHeader{{Key: key, Values: vals}}}}
	}
	var out []c48bEdge
	add := func(p *c48bPolicy, evalOK bool) { out = append(out, c48bEdge{p: p, evalOK: evalOK}) }
	add(&c48bPolicy{Name: c48bS("authz"), Allow: []c48bRule{okRule}}, true)
	add(&c48bPolicy{Allow: []c48bRule{okRule}}, true)                                          // no policy name
	add(&c48bPolicy{Name: c48bS(""), Allow: []c48bRule{okRule}}, true)                         // empty policy name
	add(&c48bPolicy{Name: c48bS("authz")}, true)                                               // no rules at all
	add(&c48bPolicy{Name: c48bS("authz"), Deny: []c48bRule{okRule}}, true)                     // deny only
	add(&c48bPolicy{Name: c48bS("authz"), Allow: []c48bRule{{Request: okRule.Request}}}, true) // allow rule without name
	add(&c48bPolicy{Name: c48bS("authz"), Allow: []c48bRule{okRule, {Name: c48bS("")}}}, true) // second allow rule with empty name
	add(&c48bPolicy{Name: c48bS("authz"), Deny: []c48bRule{{Name: c48bS("")}}, Allow: []c48bRule{allRule}}, true)
	add(&c48bPolicy{Name: c48bS("authz"), Deny: []c48bRule{okRule, {Source: &c48bSource{Principals: []string{"*"}}}}, Allow: []c48bRule{allRule}}, true)
	for _, key := range []string{"", ":path", ":method", "grpc-timeout", "Grpc-Foo", "host", "Host", "te", "TE", "connection", "keep-alive", "proxy-authenticate", "proxy-authorization", "trailer", "transfer-encoding", "upgrade"} {
		k := key
		add(&c48bPolicy{Name: c48bS("authz"), Allow: []c48bRule{hdr(&k, []string{"*"})}}, false)
		add(&c48bPolicy{Name: c48bS("authz"), Deny: []c48bRule{hdr(&k, []string{"v1"})}, Allow: []c48bRule{allRule}}, false)
	}
	add(&c48bPolicy{Name: c48bS("authz"), Allow: []c48bRule{hdr(nil, []string{"v1"})}}, false)                                        // header without key
	add(&c48bPolicy{Name: c48bS("authz"), Allow: []c48bRule{hdr(c48bS("k"), nil)}}, true)                                             // header without values
	add(&c48bPolicy{Name: c48bS("authz"), Allow: []c48bRule{hdr(c48bS("k"), []string{"v1"}), hdr(c48bS("k"), []string{"v*"})}}, true) // same name "h" twice
	add(&c48bPolicy{Name: c48bS("authz"), Allow: []c48bRule{hdr(c48bS("content-type"), []string{"*"})}}, true)
	for _, js := range []string{
		``, `{`, `[]`, `null`, `{"name":"authz","allow_rules":[{"name":"a"}],"extra":1}`,
		`{"name":"authz","allow_rules":[{"name":"a","request":{"paths":"/s/m"}}]}`,
		`{"name":"authz","allow_rules":[{"name":"a","unknown":{}}]}`,
		`{"name":"authz","allow_rules":[{"name":"a"}],"audit_logging_options":{"audit_condition":"BOGUS"}}`,
	} {
		out = append(out, c48bEdge{p: &c48bPolicy{}, raw: true, js: js, evalOK: false})
	}
	return out
}

// ---------------------------------------------------------------------------

func TestVerif_C48_Authz(t *testing.T) {
	const P = c48bP
	r := vk.Start(t, "c48b_authz", "exploration", P)
	defer r.Finish()
	defer debug.SetGCPercent(debug.SetGCPercent(400))
	x := &c48bRunner{r: r, reqs: c48bRequests(r.Thorough())}

	if r.ReplayFile() != "" {
		var rp c48bReplay
		if err := r.LoadReplay(&rp); err != nil {
			r.EngineError("replay: %v", err)
			return
		}
		x.reqs = c48bRequests(true)
		st := c48bNewStats()
		x.check("replay", 0, &rp.Data, rp.Policy, true, rp.Req, st)
		r.Eval(P, st.evals)
		for _, v := range st.viols {
			r.Violation(P, v.key, v.desc, v.rp)
		}
		fmt.Printf("replay: policy %s req %s: evaluated %d, violations %d\n", rp.Policy, rp.Req, st.evals, len(st.viols))
		return
	}

	th := r.Thorough()
	bodies := c48bBodies(th)
	menu := c48bBodyMenu()[:r.Pick(5, 8)]
	names := []string{"a", "b"}
	lists := c48bRuleLists(names, menu)
	edges := c48bEdges()

	r.Rule(P, fmt.Sprintf("SDK JSON policies from a grammar, every accepted policy evaluated on all %d requests (2 methods x 2 header maps x peer/local addresses x 7 TLS identities) through the unary and stream entry points of authz.NewStatic's interceptor (built twice; the second build's decisions are compared in layers R and E). "+
		"(R) every rule body = principals list (0..2 over %v) x paths list (0..2 over %v) x at most one header (key k|K, 1..2 values over %v) [pairs %s], once as the only allow rule and once as the only deny rule in front of an allow-everything rule; "+
		"(L) every policy with 0..2 deny rules and 0..2 allow rules, each rule = name in {a,b} x body from a %d-body menu (ordered, so same-named rules inside one list and across lists are all included); "+
		"(E) %d hand-listed policies with one missing/invalid/odd element each (names, header keys, unknown fields, malformed JSON). "+
		"rejected policies must be rejected twice with the same error. non-trivial = an accepted policy whose reference decision is not constant over the requests",
		len(x.reqs), c48bPrincipalPats, c48bPathPats, c48bHeaderPats, map[bool]string{true: "ordered", false: "unordered"}[th], len(menu), len(edges)))

	layer := func(name string, n int, sharded bool, f func(i int, st *c48bStats)) {
		st := x.par(n, sharded, f)
		r.Eval(P, st.evals)
		r.NontrivialN(P, st.nontrivial)
		r.Set(P, name+"_policies", st.policies)
		r.Set(P, name+"_accepted", st.accepted)
		r.Set(P, name+"_rejected", st.rejected)
		r.Set(P, name+"_evals", st.evals)
		keys := make([]string, 0, len(st.outcomes))
		for k := range st.outcomes {
			keys = append(keys, k)
		}
		sort.Strings(keys)
		for _, k := range keys {
			r.Outcome(P, name+":"+k)
			r.Set(P, name+"_"+k, st.outcomes[k])
		}
		if len(st.outcomes) < 2 {
			r.EngineError("layer %s is vacuous: outcome classes %v", name, keys)
		}
		// deterministic report: lowest enumeration index first, one per key
		sort.Slice(st.viols, func(a, b int) bool {
			if st.viols[a].idx != st.viols[b].idx {
				return st.viols[a].idx < st.viols[b].idx
			}
			return st.viols[a].seq < st.viols[b].seq
		})
		for _, v := range st.viols {
			r.Violation(P, v.key, v.desc, v.rp)
		}
	}

	allRule := c48bMkRule("all", c48bBody{})
	layer("R_rule", 2*len(bodies), true, func(i int, st *c48bStats) {
		p := &c48bPolicy{Name: c48bS("authz")}
		rule := c48bMkRule("r", bodies[i/2])
		if i%2 == 0 {
			p.Allow = []c48bRule{rule}
		} else {
			p.Deny, p.Allow = []c48bRule{rule}, []c48bRule{allRule}
		}
		x.check("R_rule", i, p, p.JSON(), true, "", st)
	})
	nl := len(lists)
	layer("L_lists", nl*nl, true, func(i int, st *c48bStats) {
		p := &c48bPolicy{Name: c48bS("authz"), Deny: lists[i/nl], Allow: lists[i%nl]}
		x.check("L_lists", i, p, p.JSON(), true, "", st)
	})
	if sh, _ := r.Shard(); sh == 0 { // small layer: shard 0 runs all of it
		layer("E_edges", len(edges), false, func(i int, st *c48bStats) {
			e := edges[i]
			js := e.js
			if !e.raw {
				js = e.p.JSON()
			}
			x.check("E_edges", i, e.p, js, e.evalOK, "", st)
		})
	}

	if sh, _ := r.Shard(); sh == 0 {
		p := &c48bPolicy{Name: c48bS("authz"), Deny: lists[len(lists)-1], Allow: lists[3]}
		for _, qi := range []int{0, 5, len(x.reqs) - 3} {
			q := x.reqs[qi]
			want, class := c48bDecide(p, q)
			r.Sample(P, map[string]any{"policy": json.RawMessage(p.JSON()), "request": q.Name, "reference_allows": want, "class": class})
		}
		r.Set(P, "requests", len(x.reqs))
		r.Set(P, "rule_bodies", len(bodies))
		r.Set(P, "rule_lists", len(lists))
	}
	r.Assume(P, "SDK pattern semantics (gRFC A43): '*' = any non-empty value, 'p*' prefix, '*s' suffix, otherwise exact; empty principals = any peer, authenticated or not; principals compare against URI SANs, else DNS SANs, else subject; header keys are case-insensitive and values are the comma-joined metadata values; all listed headers must match")
	r.Assume(P, "which policies the translator must reject is not part of the property: rejected policies are only required to be rejected identically twice")
	r.Assume(P, "the context is assembled by the harness from the same calls grpc.Server makes, not by a running server")
}
