//go:build verif

package grpc

// C06 harness support: a poisoning per-worker buffer pool, the scripted
// streamReader (real mem.Buffers, explicit chunk boundaries), and the
// harness-owned compressors (nibble format with a counting streaming reader,
// byte-pair RLE for the sending half, counting wrapper around the registered
// gzip compressor).

import (
	"bytes"
	"errors"
	"io"

	"google.golang.org/grpc/encoding"
	"google.golang.org/grpc/mem"
)

// ---- pool ----

const (
	c06SmallCap = 2048      // > mem pooling threshold (1024) so that chunk buffers are real ref-counted buffers
	c06MidCap   = 32 * 1024 // mem.ReadAll asks for 32KiB
)

// c06Pool is a single-goroutine mem.BufferPool with free lists. Put poisons
// the head of the returned slice so that a use-after-free shows up as corrupted
// message bytes.
type c06Pool struct {
	small, mid []*[]byte
	gets, puts int64
}

func (p *c06Pool) Get(n int) *[]byte {
	p.gets++
	var b *[]byte
	switch {
	case n <= c06SmallCap:
		if k := len(p.small); k > 0 {
			b = p.small[k-1]
			p.small = p.small[:k-1]
		} else {
			s := make([]byte, c06SmallCap)
			b = &s
		}
	case n <= c06MidCap:
		if k := len(p.mid); k > 0 {
			b = p.mid[k-1]
			p.mid = p.mid[:k-1]
		} else {
			s := make([]byte, c06MidCap)
			b = &s
		}
	default:
		s := make([]byte, n)
		return &s
	}
	*b = (*b)[:n]
	return b
}

func (p *c06Pool) Put(b *[]byte) {
	p.puts++
	s := (*b)[:cap(*b)]
	for i := 0; i < len(s) && i < 96; i++ {
		s[i] = 0xDD
	}
	switch cap(s) {
	case c06SmallCap:
		p.small = append(p.small, b)
	case c06MidCap:
		p.mid = append(p.mid, b)
	}
}

// ---- scripted stream reader ----

const (
	c06BufRef   = 0 // ref-counted pooled buffers (double free / use after free are detectable)
	c06BufSlice = 1 // mem.SliceBuffer, which is what the transport produces for small frames

	c06EOFContract = 0 // Read: io.EOF when nothing was read, io.ErrUnexpectedEOF after a partial read (documented Stream contract)
	c06EOFPlain    = 1 // Read: io.EOF whenever the stream ends inside the payload
)

// c06Reader implements the parser's streamReader over a byte stream cut into
// chunks at the given offsets; every chunk becomes one mem.Buffer exactly like
// one DATA frame does in the transport (recvBufferReader keeps the unread rest
// of a chunk in `last` and splits it with mem.SplitUnsafe/ReadUnsafe).
type c06Reader struct {
	pool     *c06Pool
	stream   []byte
	cuts     []int
	ci, off  int
	last     mem.Buffer
	bufKind  int
	eofStyle int
	err      error
}

func (r *c06Reader) reset(stream []byte, cuts []int, bufKind, eofStyle int) {
	r.stream, r.cuts, r.ci, r.off, r.last, r.bufKind, r.eofStyle, r.err = stream, cuts, 0, 0, nil, bufKind, eofStyle, nil
}

func (r *c06Reader) next() mem.Buffer {
	if r.off >= len(r.stream) {
		return nil
	}
	end := len(r.stream)
	if r.ci < len(r.cuts) {
		end = r.cuts[r.ci]
		r.ci++
	}
	chunk := r.stream[r.off:end]
	r.off = end
	if r.bufKind == c06BufSlice {
		s := make(mem.SliceBuffer, len(chunk))
		copy(s, chunk)
		return s
	}
	bp := r.pool.Get(len(chunk))
	copy(*bp, chunk)
	return mem.NewBuffer(bp, r.pool)
}

func (r *c06Reader) release() {
	if r.last != nil {
		r.last.Free()
		r.last = nil
	}
}

func (r *c06Reader) ReadMessageHeader(h []byte) error {
	if r.err != nil {
		return r.err
	}
	got := 0
	for len(h) > 0 {
		b := r.last
		r.last = nil
		if b == nil {
			if b = r.next(); b == nil {
				r.err = io.EOF
				if got > 0 {
					r.err = io.ErrUnexpectedEOF
				}
				return r.err
			}
		}
		var n int
		n, r.last = mem.ReadUnsafe(h, b)
		h = h[n:]
		got += n
	}
	return nil
}

func (r *c06Reader) Read(n int) (mem.BufferSlice, error) {
	if r.err != nil {
		return nil, r.err
	}
	data := make(mem.BufferSlice, 0, 2)
	got := 0
	for n > 0 {
		b := r.last
		r.last = nil
		if b == nil {
			if b = r.next(); b == nil {
				r.err = io.EOF
				if got > 0 && r.eofStyle == c06EOFContract {
					r.err = io.ErrUnexpectedEOF
				}
				data.Free()
				return nil, r.err
			}
		}
		if b.Len() > n {
			b, r.last = mem.SplitUnsafe(b, n)
		}
		n -= b.Len()
		got += b.Len()
		data = append(data, b)
	}
	return data, nil
}

type c06RC string

func (s c06RC) RecvCompress() string { return string(s) }

// ---- codec used with recv / prepareMsg ----

// c06Codec marshals a []byte as a BufferSlice cut into `parts` buffers and
// unmarshals by copying into *[]byte.
type c06Codec struct {
	pool  *c06Pool
	parts int
}

func (c c06Codec) Marshal(v any) (mem.BufferSlice, error) {
	b := v.([]byte)
	if c.parts <= 1 || len(b) < 3 {
		return mem.BufferSlice{mem.Copy(b, c.pool)}, nil
	}
	return mem.BufferSlice{mem.Copy(b[:1], c.pool), mem.Copy(b[1:len(b)/2], c.pool), mem.Copy(b[len(b)/2:], c.pool)}, nil
}

func (c c06Codec) Unmarshal(data mem.BufferSlice, v any) error {
	p := v.(*[]byte)
	n := data.Len()
	if cap(*p) < n {
		*p = make([]byte, n)
	}
	*p = (*p)[:n]
	data.CopyTo(*p)
	return nil
}

// ---- counting ----

type c06Count struct {
	out int64 // bytes handed out by the decompressing reader since reset
	v0  int64 // bytes materialised by a legacy Decompressor.Do since reset
}

// ---- nibble format (receive-half enumeration) ----
//
// Every compressed byte b expands to (b>>4) copies of 0x60+(b&0x0f); a byte
// whose low nibble is 0xf is invalid. One byte can thus expand 15-fold, which
// puts "decompressed size = limit / limit+1 / far above" within reach of the
// 0..5 byte payloads of the exhaustive chunking enumeration.

var c06ErrNib = errors.New("c06nib: invalid byte")

type c06NibReader struct {
	src io.Reader
	n   int
	v   byte
	cnt *c06Count
	err error
}

func (z *c06NibReader) Read(p []byte) (int, error) {
	if len(p) == 0 {
		return 0, nil
	}
	filled := 0
	for filled < len(p) {
		if z.n == 0 {
			if z.err != nil {
				break
			}
			var one [1]byte
			if _, err := io.ReadFull(z.src, one[:]); err != nil {
				z.err = err
				break
			}
			if one[0]&0x0f == 0x0f {
				z.err = c06ErrNib
				break
			}
			z.n, z.v = int(one[0]>>4), 0x60+one[0]&0x0f
			continue
		}
		k := z.n
		if k > len(p)-filled {
			k = len(p) - filled
		}
		for i := 0; i < k; i++ {
			p[filled+i] = z.v
		}
		filled += k
		z.n -= k
	}
	if z.cnt != nil {
		z.cnt.out += int64(filled)
	}
	if filled > 0 {
		return filled, nil
	}
	return 0, z.err
}

// c06NibV1 is an encoding.Compressor (never registered; handed to recv directly).
type c06NibV1 struct{ cnt *c06Count }

func (c *c06NibV1) Name() string { return "c06nib" }
func (c *c06NibV1) Compress(io.Writer) (io.WriteCloser, error) {
	return nil, errors.New("c06nib: compress not supported")
}
func (c *c06NibV1) Decompress(r io.Reader) (io.Reader, error) {
	return &c06NibReader{src: r, cnt: c.cnt}, nil
}

// c06NibV0 is a third-party legacy Decompressor (no size parameter in the API).
type c06NibV0 struct{ cnt *c06Count }

func (c *c06NibV0) Type() string { return "c06nib" }
func (c *c06NibV0) Do(r io.Reader) ([]byte, error) {
	b, err := io.ReadAll(&c06NibReader{src: r})
	if c.cnt != nil {
		c.cnt.v0 += int64(len(b))
	}
	return b, err
}

// c06RefNib is the specification of the nibble format (oracle side).
func c06RefNib(b []byte) ([]byte, bool) {
	var out []byte
	for _, x := range b {
		if x&0x0f == 0x0f {
			return nil, false
		}
		out = append(out, bytes.Repeat([]byte{0x60 + x&0x0f}, int(x>>4))...)
	}
	return out, true
}

// ---- byte-pair RLE (sending half; general byte strings) ----

func c06RLEEncode(p []byte) []byte {
	var out []byte
	for i := 0; i < len(p); {
		j := i
		for j < len(p) && p[j] == p[i] && j-i < 255 {
			j++
		}
		out = append(out, byte(j-i), p[i])
		i = j
	}
	return out
}

// c06RefRLE is the specification of the pair format (oracle side).
func c06RefRLE(b []byte) ([]byte, bool) {
	if len(b)%2 != 0 {
		return nil, false
	}
	var out []byte
	for i := 0; i < len(b); i += 2 {
		out = append(out, bytes.Repeat([]byte{b[i+1]}, int(b[i]))...)
	}
	return out, true
}

// c06RefRLEFast decodes with a single allocation (user-code side only).
func c06RefRLEFast(b []byte) ([]byte, bool) {
	n := 0
	for i := 0; i+1 < len(b); i += 2 {
		n += int(b[i])
	}
	out := make([]byte, 0, n)
	for i := 0; i+1 < len(b); i += 2 {
		for k := 0; k < int(b[i]); k++ {
			out = append(out, b[i+1])
		}
	}
	return out, len(b)%2 == 0
}

type c06RLEReader struct {
	src io.Reader
	n   int
	v   byte
	cnt *c06Count
	err error
}

func (z *c06RLEReader) Read(p []byte) (int, error) {
	if len(p) == 0 {
		return 0, nil
	}
	filled := 0
	for filled < len(p) {
		if z.n == 0 {
			if z.err != nil {
				break
			}
			var pair [2]byte
			if _, err := io.ReadFull(z.src, pair[:]); err != nil {
				if err == io.ErrUnexpectedEOF {
					err = errors.New("c06rle: odd length")
				}
				z.err = err
				break
			}
			z.n, z.v = int(pair[0]), pair[1]
			continue
		}
		k := z.n
		if k > len(p)-filled {
			k = len(p) - filled
		}
		for i := 0; i < k; i++ {
			p[filled+i] = z.v
		}
		filled += k
		z.n -= k
	}
	if z.cnt != nil {
		z.cnt.out += int64(filled)
	}
	if filled > 0 {
		return filled, nil
	}
	return 0, z.err
}

type c06RLEWriter struct {
	w   io.Writer
	buf []byte
}

func (z *c06RLEWriter) Write(p []byte) (int, error) { z.buf = append(z.buf, p...); return len(p), nil }
func (z *c06RLEWriter) Close() error {
	_, err := z.w.Write(c06RLEEncode(z.buf))
	return err
}

type c06RLEV1 struct{ cnt *c06Count }

func (c *c06RLEV1) Name() string { return "c06rle" }
func (c *c06RLEV1) Compress(w io.Writer) (io.WriteCloser, error) {
	return &c06RLEWriter{w: w}, nil
}
func (c *c06RLEV1) Decompress(r io.Reader) (io.Reader, error) {
	return &c06RLEReader{src: r, cnt: c.cnt}, nil
}

// c06RLEV0 is both a legacy Compressor and a legacy Decompressor.
type c06RLEV0 struct{ cnt *c06Count }

func (c *c06RLEV0) Type() string { return "c06rle" }
func (c *c06RLEV0) Do(r io.Reader) ([]byte, error) {
	var in bytes.Buffer
	if rr, ok := r.(interface{ Remaining() int }); ok {
		in.Grow(rr.Remaining())
	}
	if _, err := in.ReadFrom(r); err != nil {
		return nil, err
	}
	b, ok := c06RefRLEFast(in.Bytes())
	var err error
	if !ok {
		err = errors.New("c06rle: odd length")
	}
	if c.cnt != nil {
		c.cnt.v0 += int64(len(b))
	}
	return b, err
}

type c06RLEV0Comp struct{}

func (c06RLEV0Comp) Type() string { return "c06rle" }
func (c06RLEV0Comp) Do(w io.Writer, p []byte) error {
	_, err := w.Write(c06RLEEncode(p))
	return err
}

// ---- counting wrapper around a real encoding.Compressor (registered gzip) ----

type c06CountComp struct {
	inner encoding.Compressor
	cnt   *c06Count
}

func (c *c06CountComp) Name() string { return c.inner.Name() }
func (c *c06CountComp) Compress(w io.Writer) (io.WriteCloser, error) {
	return c.inner.Compress(w)
}
func (c *c06CountComp) Decompress(r io.Reader) (io.Reader, error) {
	in, err := c.inner.Decompress(r)
	if err != nil {
		return nil, err
	}
	return &c06CountReader{in: in, cnt: c.cnt}, nil
}

type c06CountReader struct {
	in  io.Reader
	cnt *c06Count
}

func (z *c06CountReader) Read(p []byte) (int, error) {
	n, err := z.in.Read(p)
	z.cnt.out += int64(n)
	return n, err
}

func (z *c06CountReader) Close() error {
	if c, ok := z.in.(io.Closer); ok {
		return c.Close()
	}
	return nil
}
