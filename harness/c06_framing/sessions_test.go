//go:build verif

package grpc

// C06, grpc-level interleaved codec sessions.
//
// The real rpc_util.go helpers decompress() / compress() (registered gzip
// encoding.Compressor, mem.BufferSlice readers/writers) and the legacy
// gzipDecompressor / gzipCompressor are run as 2-3 overlapping "sessions" (one
// message of one stream each). Every session runs on its own goroutine but a
// baton makes exactly one of them runnable at any time: a session hands the
// baton back before every Read/Write/Close the helper issues on the codec
// object (v1: a pass-through wrapper around the registered compressor's
// reader/writer; legacy: the source reader / destination writer). EVERY
// interleaving of these steps is executed (stateless DFS over schedules),
// starting from empty pools (two GCs) and after 1 completed session of each
// kind, GOMAXPROCS=1, GC disabled while a schedule runs.
//
// Oracle: every helper call returns exactly its own message (decompress) /
// bytes that gunzip to its own message (compress), no error, no panic; and the
// registered compressor never hands one reader/writer to two sessions that are
// both between Decompress/Compress and Close.

import (
	"bytes"
	"fmt"
	"io"
	"math"
	"runtime"
	"runtime/debug"
	"strings"
	"testing"

	"google.golang.org/grpc/encoding"
	"google.golang.org/grpc/internal/verif/vk"
	"google.golang.org/grpc/mem"
)

func c06sMsg(i, n int) []byte {
	b := make([]byte, n)
	x := uint32(i+1)*2654435761 + uint32(n)
	for j := range b {
		x = x*1664525 + 1013904223
		b[j] = byte('a'+i) ^ byte(x>>28)
	}
	return b
}

type c06sFail struct{ class, desc string }

// c06sWorld is the state of one schedule execution.
type c06sWorld struct {
	pool     *c06Pool
	reg      encoding.Compressor
	gd       *gzipDecompressor
	gc       Compressor
	open     map[any]int // object handed out by the registered compressor -> session holding it
	closed   map[any]bool
	reuse    int
	fails    []c06sFail
	sessions []*c06sSession
}

func (w *c06sWorld) fail(class, format string, a ...any) {
	w.fails = append(w.fails, c06sFail{class, fmt.Sprintf(format, a...)})
}

type c06sSession struct {
	w      *c06sWorld
	id     int
	kind   string // v1d v1c v0d v0c
	msg    []byte
	z      []byte // gzip(msg)
	resume chan struct{}
	yield  chan struct{}
	done   bool
	steps  int
	free   bool // warm-up session: runs to completion without yielding
}

func (s *c06sSession) pause() {
	s.steps++
	if s.free {
		return
	}
	s.yield <- struct{}{}
	<-s.resume
}

func (w *c06sWorld) handOut(s *c06sSession, obj any) {
	if other, held := w.open[obj]; held {
		ok := ""
		for _, o := range w.sessions {
			if o.id == other {
				ok = o.kind
			}
		}
		w.fail("object-shared-by-open-sessions", "session %d (%s) was handed a %T that open session %d (%s) still holds", s.id, s.kind, obj, other, ok)
	}
	if w.closed[obj] {
		w.reuse++
	}
	w.open[obj] = s.id
}

func (w *c06sWorld) release(s *c06sSession, obj any) {
	if w.open[obj] == s.id {
		delete(w.open, obj)
	}
	w.closed[obj] = true
}

// c06sComp wraps the registered compressor for one session: pass-through, but
// the session yields before every Read/Write/Close.
type c06sComp struct {
	s *c06sSession
}

func (c *c06sComp) Name() string { return c.s.w.reg.Name() }

func (c *c06sComp) Decompress(r io.Reader) (io.Reader, error) {
	in, err := c.s.w.reg.Decompress(r)
	if err != nil {
		return nil, err
	}
	c.s.w.handOut(c.s, in)
	return &c06sReader{s: c.s, in: in}, nil
}

func (c *c06sComp) Compress(w io.Writer) (io.WriteCloser, error) {
	in, err := c.s.w.reg.Compress(w)
	if err != nil {
		return nil, err
	}
	c.s.w.handOut(c.s, in)
	return &c06sWriter{s: c.s, in: in}, nil
}

type c06sReader struct {
	s  *c06sSession
	in io.Reader
}

func (r *c06sReader) Read(p []byte) (int, error) {
	r.s.pause()
	return r.in.Read(p)
}

func (r *c06sReader) Close() error {
	r.s.pause()
	var err error
	if c, ok := r.in.(io.Closer); ok {
		err = c.Close()
	}
	r.s.w.release(r.s, r.in)
	return err
}

type c06sWriter struct {
	s  *c06sSession
	in io.WriteCloser
}

func (w *c06sWriter) Write(p []byte) (int, error) {
	w.s.pause()
	return w.in.Write(p)
}

func (w *c06sWriter) Close() error {
	w.s.pause()
	err := w.in.Close()
	w.s.w.release(w.s, w.in)
	return err
}

// pausing source / destination for the legacy helpers
type c06sSrc struct {
	s *c06sSession
	r *bytes.Reader
}

func (x *c06sSrc) Read(p []byte) (int, error) {
	x.s.pause()
	return x.r.Read(p)
}

type c06sDst struct {
	s *c06sSession
	b bytes.Buffer
}

func (x *c06sDst) Write(p []byte) (int, error) {
	x.s.pause()
	return x.b.Write(p)
}

func c06sSplit(b []byte, pool mem.BufferPool) mem.BufferSlice {
	if len(b) < 2 {
		return mem.BufferSlice{mem.Copy(b, pool)}
	}
	return mem.BufferSlice{mem.Copy(b[:len(b)/3+1], pool), mem.Copy(b[len(b)/3+1:], pool)}
}

// body runs the session's helper call and checks its result.
func (s *c06sSession) body() {
	w := s.w
	defer func() {
		if p := recover(); p != nil {
			w.fail("panic", "session %d (%s, %d-byte message): panic in the receive/send path: %v", s.id, s.kind, len(s.msg), p)
		}
	}()
	limit := len(s.msg) // exactly at the limit: the limit+1 reader is in play
	if s.id%2 == 1 {
		limit = math.MaxInt
	}
	checkPlain := func(got []byte, err error) {
		if err != nil {
			w.fail("error-on-valid-input", "session %d (%s): valid %d-byte message failed: %v", s.id, s.kind, len(s.msg), err)
		} else if !bytes.Equal(got, s.msg) {
			w.fail("wrong-output", "session %d (%s): returned %d bytes that are not ITS %d-byte message (first bytes %x, want %x)", s.id, s.kind, len(got), len(s.msg), c06sHead(got), c06sHead(s.msg))
		}
	}
	checkZ := func(z []byte, err error) {
		if err != nil {
			w.fail("error-on-valid-input", "session %d (%s): compressing a %d-byte message failed: %v", s.id, s.kind, len(s.msg), err)
			return
		}
		plain, ok := c06RefGunzip(z)
		if !ok || !bytes.Equal(plain, s.msg) {
			w.fail("wrong-output", "session %d (%s): compressed output (%d bytes) does not gunzip to ITS %d-byte message (decodable=%v, %d bytes)", s.id, s.kind, len(z), len(s.msg), ok, len(plain))
		}
	}
	switch s.kind {
	case "v1d":
		d := c06sSplit(s.z, w.pool)
		out, err := decompress(&c06sComp{s: s}, d, nil, limit, w.pool)
		d.Free()
		var got []byte
		if err == nil {
			got = out.Materialize()
			out.Free()
		}
		checkPlain(got, err)
	case "v1c":
		in := c06sSplit(s.msg, w.pool)
		out, pf, err := compress(in, nil, &c06sComp{s: s}, w.pool)
		in.Free()
		var z []byte
		if err == nil {
			z = out.Materialize()
			out.Free()
			if pf != compressionMade {
				err = fmt.Errorf("payload format %d", pf)
			}
		}
		checkZ(z, err)
	case "v0d":
		got, err := w.gd.doWithMaxSize(&c06sSrc{s: s, r: bytes.NewReader(s.z)}, int64(limit))
		checkPlain(got, err)
	case "v0c":
		dst := &c06sDst{s: s}
		err := w.gc.Do(dst, s.msg)
		checkZ(dst.b.Bytes(), err)
	}
}

func c06sHead(b []byte) []byte {
	if len(b) > 8 {
		return b[:8]
	}
	return b
}

type c06sSpec struct {
	kinds []string
	sizes []int
	warm  bool
}

func (sp c06sSpec) name() string {
	var p []string
	for i, k := range sp.kinds {
		p = append(p, fmt.Sprintf("%s:%d", k, sp.sizes[i]))
	}
	n := strings.Join(p, "+")
	if sp.warm {
		n += "/warm"
	} else {
		n += "/fresh"
	}
	return n
}

type c06sTrace struct {
	chosen []int
	alive  [][]int
	fails  []c06sFail
	reuse  int
	steps  []int
}

var c06sZCache = map[string][]byte{}

// c06sExec runs one schedule: prefix, then always the lowest-numbered session
// that is not done.
func c06sExec(sp c06sSpec, prefix []int) c06sTrace {
	// empty the registered compressor's pools (local + victim) so that every
	// schedule is self-contained; no GC happens while the schedule runs
	runtime.GC()
	runtime.GC()
	w := &c06sWorld{pool: &c06Pool{}, reg: encoding.GetCompressor("gzip"), open: map[any]int{}, closed: map[any]bool{}}
	w.gd = NewGZIPDecompressor().(*gzipDecompressor)
	w.gc = NewGZIPCompressor()
	mk := func(id int, kind string, size int, free bool) *c06sSession {
		msg := c06sMsg(id, size)
		zk := fmt.Sprintf("%d/%d", id, size)
		z, ok := c06sZCache[zk]
		if !ok {
			z = c06StdGzip(msg)
			c06sZCache[zk] = z
		}
		return &c06sSession{w: w, id: id, kind: kind, msg: msg, z: z, resume: make(chan struct{}), yield: make(chan struct{}), free: free}
	}
	for i, k := range sp.kinds {
		w.sessions = append(w.sessions, mk(i, k, sp.sizes[i], false))
	}
	if sp.warm {
		// one completed session of every kind that takes part: pooled objects get recycled
		seen := map[string]bool{}
		for i, k := range sp.kinds {
			if seen[k] {
				continue
			}
			seen[k] = true
			ws := mk(len(sp.kinds)+i, k, 1000, true)
			w.sessions = append(w.sessions, ws)
			ws.body()
		}
		w.fails = nil // a failure of a lone sequential session belongs to the other legs
	}
	live := w.sessions[:len(sp.kinds)]
	for _, s := range live {
		s := s
		go func() {
			<-s.resume
			s.body()
			s.done = true
			s.yield <- struct{}{}
		}()
	}
	var tr c06sTrace
	for step := 0; ; step++ {
		var alive []int
		for _, s := range live {
			if !s.done {
				alive = append(alive, s.id)
			}
		}
		if len(alive) == 0 {
			break
		}
		pick := alive[0]
		if step < len(prefix) {
			for _, a := range alive {
				if a == prefix[step] {
					pick = a
				}
			}
		}
		tr.chosen = append(tr.chosen, pick)
		tr.alive = append(tr.alive, alive)
		s := live[pick]
		s.resume <- struct{}{}
		<-s.yield
		if step > 4096 {
			w.fail("no-progress", "sessions did not finish within 4096 steps")
			break
		}
	}
	tr.fails, tr.reuse = w.fails, w.reuse
	for _, s := range live {
		tr.steps = append(tr.steps, s.steps)
	}
	return tr
}

func c06sSched(ch []int) string {
	var sb strings.Builder
	for _, c := range ch {
		sb.WriteByte(byte('A' + c))
	}
	return sb.String()
}

type c06sReplay struct {
	Leg   string
	Kinds []string
	Sizes []int
	Warm  bool
	Sched []int
}

// c06sExplore executes every interleaving of sp's sessions.
func c06sExplore(r *vk.Run, sp c06sSpec, reported map[string]bool, stats map[string]int64) {
	var rec func(prefix []int)
	rec = func(prefix []int) {
		if r.OverBudget() {
			r.Cap(c06P, "soft time budget used up")
			return
		}
		tr := c06sExec(sp, prefix)
		stats["schedules"]++
		stats["steps"] += int64(len(tr.chosen))
		if tr.reuse > 0 {
			stats["schedules_with_pool_reuse"]++
		}
		switches := 0
		for i := 1; i < len(tr.chosen); i++ {
			if tr.chosen[i] != tr.chosen[i-1] {
				switches++
			}
		}
		if switches >= 2 {
			stats["schedules_truly_interleaved"]++
		}
		for _, f := range tr.fails {
			k := sp.name() + "/" + f.class
			if reported[k] {
				continue
			}
			reported[k] = true
			r.Violation(c06P, "grpc-sessions/"+k+"/"+c06sSched(tr.chosen), fmt.Sprintf("%s\n  sessions %s, schedule %s (one letter per step: which session ran until its next codec call)", f.desc, sp.name(), c06sSched(tr.chosen)),
				c06sReplay{"c06_grpc_sessions", sp.kinds, sp.sizes, sp.warm, tr.chosen})
		}
		if len(tr.fails) > 0 {
			r.Outcome(c06P, "FAIL:"+tr.fails[0].class)
		}
		for j := len(prefix); j < len(tr.chosen); j++ {
			for _, a := range tr.alive[j] {
				if a > tr.chosen[j] {
					rec(append(append([]int{}, tr.chosen[:j]...), a))
				}
			}
		}
	}
	rec(nil)
}

func TestVerif_C06_GrpcSessions(t *testing.T) {
	const P = c06P
	r := vk.Start(t, "c06_grpc_sessions", "exploration", P)
	defer r.Finish()
	r.Rule(P, "every interleaving (at the granularity of the Read/Write/Close calls the helpers issue on the codec object) of 2 overlapping sessions drawn from {decompress() via registered gzip, compress() via registered gzip, legacy gzipDecompressor, legacy gzipCompressor}, every unordered pair of kinds, 300-byte messages (70000 bytes for decompress pairs; thorough: 9 triples of the first three kinds and more large pairs), from empty pools and after one completed session per kind; non-trivial = a schedule that switches session at least twice")
	runtime.GOMAXPROCS(1)
	defer debug.SetGCPercent(debug.SetGCPercent(-1))
	if r.ReplayFile() != "" {
		var rp c06sReplay
		if err := r.LoadReplay(&rp); err != nil {
			r.EngineError("replay: %v", err)
			return
		}
		if rp.Leg != "c06_grpc_sessions" {
			return
		}
		sp := c06sSpec{rp.Kinds, rp.Sizes, rp.Warm}
		tr := c06sExec(sp, rp.Sched)
		r.Eval(P, 1)
		fmt.Printf("replay %s schedule %s: %d failures\n", sp.name(), c06sSched(tr.chosen), len(tr.fails))
		for _, f := range tr.fails {
			r.Violation(P, "grpc-sessions/"+sp.name()+"/"+f.class+"/"+c06sSched(tr.chosen), f.desc, rp)
		}
		return
	}
	kinds := []string{"v1d", "v1c", "v0d", "v0c"}
	var specs []c06sSpec
	for _, warm := range []bool{false, true} {
		for a := 0; a < len(kinds); a++ {
			for b := a; b < len(kinds); b++ {
				specs = append(specs, c06sSpec{[]string{kinds[a], kinds[b]}, []int{300, 300}, warm})
			}
		}
		specs = append(specs, c06sSpec{[]string{"v1d", "v1d"}, []int{70000, 70000}, warm})
		specs = append(specs, c06sSpec{[]string{"v1d", "v1d"}, []int{70000, 300}, warm})
		if r.Thorough() {
			// three overlapping sessions (the legacy compressor issues 5 destination writes per
			// message, which makes its triples too many: it takes part in pairs only)
			for _, tr := range [][]string{{"v1d", "v1d", "v1d"}, {"v1d", "v1d", "v1c"}, {"v1d", "v1c", "v1c"}, {"v1c", "v1c", "v1c"},
				{"v1d", "v1d", "v0d"}, {"v1d", "v0d", "v0d"}, {"v0d", "v0d", "v0d"}, {"v1d", "v1c", "v0d"}, {"v1c", "v1c", "v0d"}} {
				specs = append(specs, c06sSpec{tr, []int{300, 300, 300}, warm})
			}
			specs = append(specs, c06sSpec{[]string{"v0d", "v0d"}, []int{12000, 12000}, warm})
			specs = append(specs, c06sSpec{[]string{"v1c", "v1c"}, []int{70000, 70000}, warm})
			specs = append(specs, c06sSpec{[]string{"v1d", "v1c"}, []int{70000, 70000}, warm})
		}
	}
	reported := map[string]bool{}
	total := map[string]int64{}
	perSpec := map[string]int64{}
	for _, sp := range specs {
		stats := map[string]int64{}
		c06sExplore(r, sp, reported, stats)
		perSpec[sp.name()] = stats["schedules"]
		for k, v := range stats {
			total[k] += v
		}
		if r.OverBudget() {
			r.Cap(c06P, "soft time budget used up")
			break
		}
		if sp.warm && (sp.kinds[0] == "v1d" || sp.kinds[0] == "v1c") && stats["schedules_with_pool_reuse"] == 0 {
			r.EngineError("spec %s is vacuous: no schedule ever got a recycled object back from the registered compressor's pool", sp.name())
		}
		r.Outcome(P, "explored:"+strings.Join(sp.kinds, "+"))
	}
	r.Eval(P, total["schedules"])
	r.NontrivialN(P, total["schedules_truly_interleaved"])
	r.Set(P, "grpc_sessions_schedules", total["schedules"])
	r.Set(P, "grpc_sessions_steps", total["steps"])
	r.Set(P, "grpc_sessions_schedules_with_pool_reuse", total["schedules_with_pool_reuse"])
	r.Set(P, "grpc_sessions_schedules_per_spec", perSpec)
	r.Sample(P, map[string]any{"sessions": "v1d:70000+v1d:70000/warm", "schedule": "ABABAB...", "expected": "each decompress() returns its own 70000-byte message; the registered compressor hands two different readers to the two open sessions"})
	r.Sample(P, map[string]any{"sessions": "v1c:300+v0d:300/fresh", "schedule": "AABBAB", "expected": "compress() output gunzips to A's message, legacy decompressor returns B's message"})
	r.Assume(P, "concurrency is modelled as interleaving at the codec-object calls (Read/Write/Close) the helpers issue; code between two such calls runs atomically; GOMAXPROCS=1 and no GC inside a schedule make sync.Pool deterministic")
}
