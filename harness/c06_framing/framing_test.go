//go:build verif

package grpc

// C06: gRPC message framing round-trips; size limits are enforced.
//
// Receive half: the real parser.recvMsg / recvAndDecompress / decompress /
// checkRecvPayload (through recv) are driven over a scripted streamReader made
// of real mem.Buffers, for every stream of a bounded message grammar, every
// chunking of the short streams, every receive limit and every decompressor
// configuration of the lists below, and compared with a reference parser of the
// whole byte stream (oracle_test.go).
// Sending half: prepareMsg (encode/compress/msgHeader) output is checked
// against the wire format and fed back into the receive half.

import (
	"bytes"
	stdgzip "compress/gzip"
	"encoding/binary"
	"encoding/hex"
	"fmt"
	"math"
	"os"
	"runtime"
	"runtime/debug"
	"sort"
	"strconv"
	"sync"
	"sync/atomic"
	"testing"
	"time"

	"google.golang.org/grpc/encoding"
	_ "google.golang.org/grpc/encoding/gzip" // the registered gzip compressor is one of the configurations
	"google.golang.org/grpc/internal/verif/vk"
	"google.golang.org/grpc/mem"
)

const c06P = "C06"

// c06PairMax: family A streams up to this length (and above the all-chunkings
// bound) also get every pair of cuts in the thorough tier.
var c06PairMax = 18

// c06DryRun (env C06_DRY=1) only counts the runs of the enumeration; sizing aid.
var c06DryRun = os.Getenv("C06_DRY") != ""

// ---- configurations ----

func c06Cfgs() []*c06Cfg {
	none := func(*c06Worker) (Decompressor, encoding.Compressor) { return nil, nil }
	return []*c06Cfg{
		{name: "none", recvCompress: "", mk: none},
		{name: "none-identity", recvCompress: "identity", mk: none},
		{name: "unregistered", recvCompress: "c06-unregistered", mk: func(*c06Worker) (Decompressor, encoding.Compressor) {
			return nil, encoding.GetCompressor("c06-unregistered")
		}},
		{name: "nib-v1", recvCompress: "c06nib", format: c06FmtNib, hasDecomp: true, counting: true, mk: func(w *c06Worker) (Decompressor, encoding.Compressor) {
			return nil, &c06NibV1{cnt: &w.cnt}
		}},
		{name: "nib-v0", recvCompress: "c06nib", format: c06FmtNib, hasDecomp: true, mk: func(w *c06Worker) (Decompressor, encoding.Compressor) {
			return &c06NibV0{cnt: &w.cnt}, nil
		}},
		{name: "nib-both", recvCompress: "c06nib", format: c06FmtNib, hasDecomp: true, mk: func(w *c06Worker) (Decompressor, encoding.Compressor) {
			return &c06NibV0{cnt: &w.cnt}, &c06NibV1{cnt: &w.cnt}
		}},
		{name: "nib-v1-noenc", recvCompress: "", format: c06FmtNib, hasDecomp: true, mk: func(w *c06Worker) (Decompressor, encoding.Compressor) {
			return nil, &c06NibV1{cnt: &w.cnt}
		}},
		{name: "nib-v0-identity", recvCompress: "identity", format: c06FmtNib, hasDecomp: true, mk: func(w *c06Worker) (Decompressor, encoding.Compressor) {
			return &c06NibV0{cnt: &w.cnt}, nil
		}},
		{name: "gzip-v1", recvCompress: "gzip", format: c06FmtGzip, hasDecomp: true, mk: func(*c06Worker) (Decompressor, encoding.Compressor) {
			return nil, encoding.GetCompressor("gzip")
		}},
		{name: "gzip-v0", recvCompress: "gzip", format: c06FmtGzip, hasDecomp: true, mk: func(*c06Worker) (Decompressor, encoding.Compressor) {
			return NewGZIPDecompressor(), nil
		}},
		// the remaining ones are not part of the tiny-stream family
		{name: "gzip-v1-count", recvCompress: "gzip", format: c06FmtGzip, hasDecomp: true, counting: true, mk: func(w *c06Worker) (Decompressor, encoding.Compressor) {
			return nil, &c06CountComp{inner: encoding.GetCompressor("gzip"), cnt: &w.cnt}
		}},
		{name: "gzip-both", recvCompress: "gzip", format: c06FmtGzip, hasDecomp: true, mk: func(*c06Worker) (Decompressor, encoding.Compressor) {
			return NewGZIPDecompressor(), encoding.GetCompressor("gzip")
		}},
		{name: "rle-v1", recvCompress: "c06rle", format: c06FmtRLE, hasDecomp: true, counting: true, mk: func(w *c06Worker) (Decompressor, encoding.Compressor) {
			return nil, &c06RLEV1{cnt: &w.cnt}
		}},
		{name: "rle-v0", recvCompress: "c06rle", format: c06FmtRLE, hasDecomp: true, mk: func(w *c06Worker) (Decompressor, encoding.Compressor) {
			return &c06RLEV0{cnt: &w.cnt}, nil
		}},
	}
}

func c06CfgByName(name string) *c06Cfg {
	for _, c := range c06Cfgs() {
		if c.name == name {
			return c
		}
	}
	return nil
}

// ---- cases, workers, runner ----

type c06Case struct {
	fam    string
	lim    int
	cfg    *c06Cfg
	srv    bool
	eof    int
	buf    int
	stream []byte
	recipe string // how the stream was generated (long streams are not written out in replays)
	// chunking family
	allChunks bool  // every composition of len(stream)
	pairs     bool  // reduced family also takes every pair of cuts
	positions []int // reduced family: single-cut positions (nil = every position)
	exp       []c06Exp
}

type c06Inst struct {
	dc   Decompressor
	comp encoding.Compressor
}

type c06Fail struct {
	ord    [3]int
	key    string
	desc   string
	replay map[string]any
}

type c06Worker struct {
	pool    c06Pool
	rd      c06Reader
	cnt     c06Count
	got     []byte
	cuts    []int
	insts   map[string]c06Inst
	fails   []c06Fail
	runs    int64
	nontriv int64
	streams map[string]int64 // outcome class -> number of (stream,limit,config) cases
	runsBy  map[string]int64 // outcome class -> number of runs
	maxV0   int64
	maxPull int64 // max over runs of (bytes pulled from a counting decompressor - limit)
	leaks   int64
}

func c06NewWorker() *c06Worker {
	w := &c06Worker{insts: map[string]c06Inst{}, streams: map[string]int64{}, runsBy: map[string]int64{}, maxPull: math.MinInt64}
	w.rd.pool = &w.pool
	return w
}

func (w *c06Worker) inst(cfg *c06Cfg) c06Inst {
	in, ok := w.insts[cfg.name]
	if !ok {
		in.dc, in.comp = cfg.mk(w)
		w.insts[cfg.name] = in
	}
	return in
}

func (w *c06Worker) recvOnce(p *parser, c *c06Case, in c06Inst, usePI bool) (err error, pan any) {
	defer func() {
		if x := recover(); x != nil {
			pan = x
		}
	}()
	var pi *payloadInfo
	if usePI {
		pi = &payloadInfo{}
	}
	err = recv(p, c06Codec{pool: &w.pool}, c06RC(c.cfg.recvCompress), in.dc, &w.got, c.lim, pi, in.comp, c.srv)
	pi.free()
	return
}

// runOne drives one (case, chunking) through the real receive path.
func (w *c06Worker) runOne(c *c06Case, cuts []int, usePI bool) (step int, class, desc string) {
	in := w.inst(c.cfg)
	w.rd.reset(c.stream, cuts, c.buf, c.eof)
	p := &parser{r: &w.rd, bufferPool: &w.pool}
	g0, p0 := w.pool.gets, w.pool.puts
	for i := range c.exp {
		w.cnt.out, w.cnt.v0 = 0, 0
		w.got = w.got[:0]
		err, pan := w.recvOnce(p, c, in, usePI)
		class, desc = c06Compare(&c.exp[i], w.got, err, pan)
		if c.cfg.counting && c.lim < math.MaxInt {
			if d := w.cnt.out - int64(c.lim); d > w.maxPull {
				w.maxPull = d
			}
			if class == "" && w.cnt.out > int64(c.lim)+1 {
				class, desc = "overpull", fmt.Sprintf("decompression materialised %d bytes with limit %d (more than limit+1)", w.cnt.out, c.lim)
			}
		}
		if w.cnt.v0 > w.maxV0 {
			w.maxV0 = w.cnt.v0
		}
		if class != "" {
			step = i
			break
		}
	}
	w.rd.release()
	if class == "" && w.pool.gets-g0 != w.pool.puts-p0 {
		w.leaks++
	}
	return
}

func (c *c06Case) key(step int, class string) string {
	return fmt.Sprintf("%s lim=%s cfg=%s srv=%v eof=%d stream=%s step=%d %s", c.fam, c06LimStr(c.lim), c.cfg.name, c.srv, c.eof, c.streamID(), step, class)
}

func (c *c06Case) streamID() string {
	if len(c.stream) <= 64 {
		return hex.EncodeToString(c.stream)
	}
	return c.recipe
}

func (c *c06Case) replay(cuts []int, usePI bool) map[string]any {
	m := map[string]any{"fam": c.fam, "lim": c.lim, "cfg": c.cfg.name, "srv": c.srv, "eof": c.eof, "buf": c.buf, "payinfo": usePI, "cuts": append([]int{}, cuts...)}
	if len(c.stream) <= 4096 {
		m["stream"] = hex.EncodeToString(c.stream)
	} else {
		m["recipe"] = c.recipe
	}
	return m
}

// safeRunCase turns a panic that escapes the per-call recover (e.g. from the
// harness' own buffer release after the code under test corrupted a buffer)
// into a violation of the case instead of killing the worker process.
func (w *c06Worker) safeRunCase(g, j int, c *c06Case) {
	defer func() {
		if p := recover(); p != nil {
			w.fails = append(w.fails, c06Fail{ord: [3]int{g, j, -1}, key: c.key(0, "panic-in-worker"),
				desc:   fmt.Sprintf("%s; stream=%s, limit %s, config %s, server=%v: panic while driving the receive path: %v", c.fam, c06Hex(c.stream), c06LimStr(c.lim), c.cfg.name, c.srv, p),
				replay: c.replay(nil, false)})
			w.pool = c06Pool{} // its free lists may hold a buffer twice after the unwound call
			w.rd.last = nil
		}
	}()
	w.runCase(g, j, c)
}

// c06Guard runs f (sending-half set-up / direct checks on the main goroutine)
// and reports a panic in the code under test as a violation.
func c06Guard(r *vk.Run, what string, f func()) {
	defer func() {
		if p := recover(); p != nil {
			r.Violation(c06P, "panic "+what, fmt.Sprintf("panic in %s: %v", what, p), nil)
		}
	}()
	f()
}

// runCase evaluates one case under its whole chunking family.
func (w *c06Worker) runCase(g, j int, c *c06Case) {
	if c.exp == nil {
		c.exp = c06Oracle(c.stream, c.lim, c.cfg, c.srv)
	}
	sum := c06Summary(c.exp)
	w.streams[sum]++
	errFinal := c.exp[len(c.exp)-1].kind != c06KEOF
	failed := 0
	one := func(idx int, cuts []int) {
		usePI := idx%2 == 1
		if c06DryRun {
			w.runs++
			return
		}
		step, class, desc := w.runOne(c, cuts, usePI)
		w.runs++
		w.runsBy[sum]++
		if len(cuts) > 0 || errFinal {
			w.nontriv++
		}
		if class != "" {
			failed++
			if len(w.fails) < 20 {
				w.fails = append(w.fails, c06Fail{ord: [3]int{g, j, idx}, key: c.key(step, class),
					desc:   fmt.Sprintf("%s; stream=%s chunks cut at %v, limit %s, config %s, server=%v: receive call #%d: %s", c.fam, c06Hex(c.stream), cuts, c06LimStr(c.lim), c.cfg.name, c.srv, step+1, desc),
					replay: c.replay(cuts, usePI)})
			}
		}
	}
	n := len(c.stream)
	idx := 0
	if c.allChunks {
		if n <= 1 {
			one(0, nil)
			return
		}
		for mask := 0; mask < 1<<(n-1); mask++ {
			w.cuts = w.cuts[:0]
			for b := 0; b < n-1; b++ {
				if mask>>b&1 == 1 {
					w.cuts = append(w.cuts, b+1)
				}
			}
			one(mask, w.cuts)
			if failed >= 3 {
				return // the case is broken; do not flood
			}
		}
		return
	}
	// reduced family: whole, uniform chunk sizes, every single cut, optionally every pair of cuts
	one(idx, nil)
	idx++
	minChunks := 3
	if c.pairs {
		minChunks = 4
	}
	for _, u := range []int{1, 2, 3, 5, 7, 16, 16384, 16385} {
		if u*(minChunks-1) >= n {
			continue
		}
		if n > 4096 && (u < 5 || !c.pairs && (u == 7 || u == 16)) {
			continue // long streams: 5-byte chunks and the frame-size chunkings (thorough: also 7, 16)
		}
		w.cuts = w.cuts[:0]
		for x := u; x < n; x += u {
			w.cuts = append(w.cuts, x)
		}
		one(idx, w.cuts)
		idx++
	}
	if c.positions != nil {
		for _, x := range c.positions {
			if x > 0 && x < n {
				w.cuts = append(w.cuts[:0], x)
				one(idx, w.cuts)
				idx++
			}
		}
	} else {
		for x := 1; x < n; x++ {
			w.cuts = append(w.cuts[:0], x)
			one(idx, w.cuts)
			idx++
		}
	}
	if c.pairs && c.positions == nil {
		for x := 1; x < n; x++ {
			for y := x + 1; y < n; y++ {
				w.cuts = append(w.cuts[:0], x, y)
				one(idx, w.cuts)
				idx++
			}
			if failed >= 3 {
				return
			}
		}
	}
}

type c06Runner struct {
	r       *vk.Run
	workers []*c06Worker
	group   int
	stop    bool
}

func c06NewRunner(r *vk.Run) *c06Runner {
	n := runtime.GOMAXPROCS(0)
	if n < 1 {
		n = 1
	}
	x := &c06Runner{r: r}
	for i := 0; i < n; i++ {
		x.workers = append(x.workers, c06NewWorker())
	}
	return x
}

// runGroup evaluates the cases in parallel and reports the group's violations
// in enumeration order (deterministic whatever the goroutine interleaving).
func (x *c06Runner) runGroup(cases []*c06Case) {
	g := x.group
	x.group++
	if x.stop || len(cases) == 0 {
		return
	}
	var next int64 = -1
	var wg sync.WaitGroup
	for _, w := range x.workers {
		wg.Add(1)
		go func(w *c06Worker) {
			defer wg.Done()
			for {
				j := int(atomic.AddInt64(&next, 1))
				if j >= len(cases) {
					return
				}
				w.safeRunCase(g, j, cases[j])
			}
		}(w)
	}
	wg.Wait()
	var fails []c06Fail
	for _, w := range x.workers {
		fails = append(fails, w.fails...)
		w.fails = w.fails[:0]
	}
	sort.Slice(fails, func(a, b int) bool {
		for k := 0; k < 3; k++ {
			if fails[a].ord[k] != fails[b].ord[k] {
				return fails[a].ord[k] < fails[b].ord[k]
			}
		}
		return false
	})
	for i, f := range fails {
		if i >= 20 {
			break
		}
		x.r.Violation(c06P, f.key, f.desc, f.replay)
	}
	if x.r.NViolations(c06P) >= 20 {
		x.stop = true
		x.r.Cap(c06P, "stopped after 20 distinct violations")
	}
	if x.r.OverBudget() {
		x.stop = true
		x.r.Cap(c06P, "soft time budget used up")
	}
}

func (x *c06Runner) totalRuns() (n int64) {
	for _, w := range x.workers {
		n += w.runs
	}
	return
}

func (x *c06Runner) finish() {
	r := x.r
	var runs, nontriv, leaks, maxV0 int64
	maxPull := int64(math.MinInt64)
	streams, runsBy := map[string]int64{}, map[string]int64{}
	for _, w := range x.workers {
		runs += w.runs
		nontriv += w.nontriv
		leaks += w.leaks
		if w.maxV0 > maxV0 {
			maxV0 = w.maxV0
		}
		if w.maxPull > maxPull {
			maxPull = w.maxPull
		}
		for k, v := range w.streams {
			streams[k] += v
		}
		for k, v := range w.runsBy {
			runsBy[k] += v
		}
	}
	r.Eval(c06P, runs)
	r.NontrivialN(c06P, nontriv)
	keys := make([]string, 0, len(streams))
	for k := range streams {
		keys = append(keys, k)
	}
	sort.Strings(keys)
	var total int64
	for _, k := range keys {
		for i := int64(0); i < streams[k]; i++ {
			r.Outcome(c06P, k)
		}
		total += streams[k]
	}
	r.Set(c06P, "recv_cases_stream_limit_config", total)
	r.Set(c06P, "recv_runs_by_outcome", runsBy)
	if maxPull > math.MinInt64 {
		r.Set(c06P, "max_bytes_pulled_from_counting_decompressor_minus_limit", maxPull)
	}
	r.Set(c06P, "max_bytes_materialised_by_thirdparty_legacy_Decompressor_not_asserted", maxV0)
	r.Set(c06P, "runs_with_pool_get_put_imbalance_not_asserted", leaks)
}

// ---- family A: tiny streams, every chunking ----

func c06Header(flag byte, declared uint32) []byte {
	h := make([]byte, 5)
	h[0] = flag
	binary.BigEndian.PutUint32(h[1:], declared)
	return h
}

func c06PayloadA(a, fill int, nib bool, lim, idx int) []byte {
	p := make([]byte, a)
	if !nib {
		for j := range p {
			switch fill {
			case 0:
				p[j] = byte(0x41 + idx*16 + j)
			case 1:
				p[j] = 0x00
			default:
				p[j] = 0xFF
			}
		}
		return p
	}
	target := 0
	switch fill {
	case 0, 3:
		target = lim
		if lim == math.MaxInt || lim > 15*a {
			target = 15 * a
		}
	case 1:
		target = a
		if lim != math.MaxInt {
			target = lim + 1
		}
		if target > 15*a {
			target = 15 * a
		}
	case 2:
		target = 14 * a
	}
	rem := target
	for j := range p {
		c := (rem + (a - j) - 1) / (a - j)
		if c > 15 {
			c = 15
		}
		rem -= c
		p[j] = byte(c<<4) | byte((idx*4+j)%15)
	}
	if fill == 3 {
		p[a-1] |= 0x0f
	}
	return p
}

type c06Slot struct {
	b           []byte
	deliverable bool
}

// c06SlotsA lists every message of the grammar for message position idx.
func c06SlotsA(lim int, cfg *c06Cfg, idx int) []c06Slot {
	const huge = math.MaxUint32
	var declared []uint32
	add := func(d uint32) {
		for _, x := range declared {
			if x == d {
				return
			}
		}
		declared = append(declared, d)
	}
	add(0)
	add(1)
	add(2)
	if lim == math.MaxInt {
		add(4)
		add(5)
	} else {
		add(uint32(lim))
		add(uint32(lim + 1))
	}
	add(huge)
	var out []c06Slot
	seen := map[string]bool{}
	emit := func(b []byte) {
		if seen[string(b)] {
			return
		}
		seen[string(b)] = true
		exp := c06Oracle(b, lim, cfg, false)
		out = append(out, c06Slot{b: b, deliverable: exp[0].kind == c06KDeliver})
	}
	for _, flag := range []byte{0, 1, 2, 0xFF} {
		for _, d := range declared {
			var actual []int
			if d == huge {
				actual = []int{0, 3}
			} else {
				actual = []int{int(d)}
				if d >= 2 {
					actual = append(actual, int(d)-1)
				}
				if d >= 1 {
					actual = append(actual, 0)
				}
			}
			for _, a := range actual {
				nib := flag == 1 && cfg.format == c06FmtNib
				fills := []int{0}
				if a > 0 && flag <= 1 && a == int(d) && uint64(d) <= uint64(lim) {
					// only a message that could be delivered needs several contents
					fills = []int{0, 1, 2}
					if nib {
						fills = []int{0, 1, 2, 3}
					}
				}
				for _, f := range fills {
					emit(append(c06Header(flag, d), c06PayloadA(a, f, nib, lim, idx)...))
				}
			}
		}
	}
	// truncated length prefixes
	emit([]byte{0})
	emit([]byte{0, 0, 0, 0})
	emit([]byte{1, 0, 0, 0})
	return out
}

// c06GenA lists the streams of family A for one (limit, config): message lists
// of length <= maxMsgs in which every message but the last is deliverable.
func c06GenA(lim int, cfg *c06Cfg, srv bool, maxMsgs, nAll int, pairs bool) []*c06Case {
	slots := make([][]c06Slot, maxMsgs)
	for i := range slots {
		slots[i] = c06SlotsA(lim, cfg, i)
	}
	var cases []*c06Case
	seen := map[string]bool{}
	var gen func(prefix []byte, depth int)
	gen = func(prefix []byte, depth int) {
		for _, s := range slots[depth] {
			st := append(append([]byte{}, prefix...), s.b...)
			if !seen[string(st)] {
				seen[string(st)] = true
				c := &c06Case{fam: "A", lim: lim, cfg: cfg, srv: srv, stream: st, allChunks: len(st) <= nAll, pairs: pairs && len(st) <= c06PairMax}
				cases = append(cases, c)
				exp := c06Oracle(st, lim, cfg, srv)
				if exp[len(exp)-1].class == "trunc-body" {
					c2 := *c
					c2.eof = c06EOFPlain
					cases = append(cases, &c2)
				}
			}
			if depth+1 < maxMsgs && s.deliverable {
				gen(st, depth+1)
			}
		}
	}
	gen(nil, 0)
	return cases
}

// ---- family B: real gzip around the decompressed-size boundary ----

func c06Plain(kind string, n int) []byte {
	p := make([]byte, n)
	if kind == "asc" {
		for i := range p {
			p[i] = byte(i*7 + 1)
		}
	}
	return p
}

func c06StdGzip(p []byte) []byte {
	var b bytes.Buffer
	zw := stdgzip.NewWriter(&b)
	zw.Write(p)
	zw.Close()
	return b.Bytes()
}

// c06RealCompress runs the real sending-half compress().
func c06RealCompress(p []byte, cp Compressor, comp encoding.Compressor) ([]byte, payloadFormat, error) {
	pool := mem.DefaultBufferPool()
	in := mem.BufferSlice{mem.Copy(p, pool)}
	defer in.Free()
	out, pf, err := compress(in, cp, comp, pool)
	if err != nil {
		return nil, pf, err
	}
	b := out.Materialize()
	out.Free()
	return b, pf, nil
}

type c06Msg struct {
	name string
	b    []byte // header + payload
}

func c06Frame(flag byte, payload []byte) []byte {
	return append(c06Header(flag, uint32(len(payload))), payload...)
}

func c06MsgsB(r *vk.Run, lim int) (all []c06Msg, prefixes []c06Msg) {
	var sizes []int
	if lim == math.MaxInt {
		sizes = []int{0, 1, 1000}
	} else {
		sizes = []int{0, 1, lim - 1, lim, lim + 1, lim + 2, 8 * lim}
	}
	if r.Thorough() {
		sizes = append(sizes, 65536)
	}
	for _, kind := range []string{"zeros", "asc"} {
		for _, n := range sizes {
			p := c06Plain(kind, n)
			id := fmt.Sprintf("%s(%d)", kind, n)
			std := c06StdGzip(p)
			all = append(all, c06Msg{"gz-std:" + id, c06Frame(1, std)})
			if n > 0 { // compress() does not compress empty messages
				for _, v := range []struct {
					name string
					cp   Compressor
					comp encoding.Compressor
				}{{"gz-real-v1:", nil, encoding.GetCompressor("gzip")}, {"gz-real-v0:", NewGZIPCompressor(), nil}} {
					b, pf, err := c06RealCompress(p, v.cp, v.comp)
					if err != nil || pf != compressionMade {
						r.Violation(c06P, "send compress "+v.name+id, fmt.Sprintf("compress() of a %d-byte message: pf=%d err=%v", n, pf, err), nil)
						continue
					}
					all = append(all, c06Msg{v.name + id, c06Frame(1, b)})
				}
			}
			if n >= 2 {
				all = append(all, c06Msg{"gz-2member:" + id, c06Frame(1, append(c06StdGzip(p[:n-1]), c06StdGzip(p[n-1:])...))})
			}
			if n == lim || n == lim+1 || n == 1 {
				cut := append([]byte{}, std[:len(std)-4]...)
				all = append(all, c06Msg{"gz-cut4:" + id, c06Frame(1, cut)})
				crc := append([]byte{}, std...)
				crc[len(crc)-8] ^= 0xFF
				all = append(all, c06Msg{"gz-badcrc:" + id, c06Frame(1, crc)})
			}
			if n <= 2048 {
				all = append(all, c06Msg{"plain:" + id, c06Frame(0, p)})
			}
		}
	}
	pl := 1
	if lim != math.MaxInt {
		pl = lim
	}
	prefixes = []c06Msg{
		{"gz-std:zeros(lim)", c06Frame(1, c06StdGzip(c06Plain("zeros", pl)))},
		{"plain:asc(1)", c06Frame(0, c06Plain("asc", 1))},
	}
	return
}

func c06Positions(n int) []int {
	if n <= 160 {
		return nil
	}
	var pos []int
	for x := 1; x <= 12 && x < n; x++ {
		pos = append(pos, x)
	}
	for x := 97; x < n-9; x += 97 * (1 + n/4096) {
		pos = append(pos, x)
	}
	for x := n - 9; x < n; x++ {
		if x > 12 {
			pos = append(pos, x)
		}
	}
	return pos
}

func c06GenB(r *vk.Run, lim int, cfg *c06Cfg, srv bool, maxMsgs int, pairs bool) []*c06Case {
	all, prefixes := c06MsgsB(r, lim)
	var cases []*c06Case
	seen := map[string]bool{}
	add := func(recipe string, st []byte) {
		if seen[string(st)] {
			return
		}
		seen[string(st)] = true
		for _, buf := range []int{c06BufRef, c06BufSlice} {
			cases = append(cases, &c06Case{fam: "B", lim: lim, cfg: cfg, srv: srv, buf: buf, stream: st, recipe: "B[" + recipe + "]",
				pairs: pairs && len(st) <= 48, positions: c06Positions(len(st))})
		}
	}
	var gen func(recipe string, prefix []byte, depth int)
	gen = func(recipe string, prefix []byte, depth int) {
		for _, m := range all {
			add(recipe+m.name, append(append([]byte{}, prefix...), m.b...))
		}
		if depth+1 < maxMsgs {
			for _, m := range prefixes {
				exp := c06Oracle(m.b, lim, cfg, srv)
				if exp[0].kind != c06KDeliver {
					continue
				}
				gen(recipe+m.name+" ", append(append([]byte{}, prefix...), m.b...), depth+1)
			}
		}
	}
	gen("", nil, 0)
	return cases
}

// ---- family C: the sending half, and send -> receive identity ----

type c06SendCfg struct {
	name string
	cp   func() Compressor
	comp func() encoding.Compressor
	recv string // receive configuration that matches
	fmt  int
}

func c06SendCfgs() []c06SendCfg {
	return []c06SendCfg{
		{name: "none", recv: "none"},
		{name: "gzip-v1", comp: func() encoding.Compressor { return encoding.GetCompressor("gzip") }, recv: "gzip-v1-count", fmt: c06FmtGzip},
		{name: "gzip-v0", cp: func() Compressor { return NewGZIPCompressor() }, recv: "gzip-v0", fmt: c06FmtGzip},
		{name: "rle-v1", comp: func() encoding.Compressor { return &c06RLEV1{} }, recv: "rle-v1", fmt: c06FmtRLE},
		{name: "rle-v0", cp: func() Compressor { return c06RLEV0Comp{} }, recv: "rle-v0", fmt: c06FmtRLE},
	}
}

// c06Prepare runs the real prepareMsg and checks the produced prefix/payload
// against the wire format. It returns header||payload.
func c06Prepare(msg []byte, sc c06SendCfg, parts int) (wire []byte, fail string) {
	pool := &c06Pool{}
	var cp Compressor
	var comp encoding.Compressor
	if sc.cp != nil {
		cp = sc.cp()
	}
	if sc.comp != nil {
		comp = sc.comp()
	}
	hdr, data, payload, pf, err := prepareMsg(msg, c06Codec{pool: pool, parts: parts}, cp, comp, pool)
	if err != nil {
		return nil, fmt.Sprintf("prepareMsg failed: %v", err)
	}
	pl := payload.Materialize()
	dl := data.Materialize()
	plen := payload.Len()
	data.Free()
	if pf.isCompressed() {
		payload.Free()
	}
	switch {
	case len(hdr) != 5:
		return nil, fmt.Sprintf("prefix is %d bytes, want 5", len(hdr))
	case hdr[0] != 0 && hdr[0] != 1:
		return nil, fmt.Sprintf("compressed flag byte is %#x", hdr[0])
	case hdr[0] != byte(pf):
		return nil, fmt.Sprintf("flag byte %d differs from returned payload format %d", hdr[0], pf)
	case hdr[0] == 1 && cp == nil && comp == nil:
		return nil, "compressed flag set although no compressor is configured"
	case int(binary.BigEndian.Uint32(hdr[1:])) != plen || plen != len(pl):
		return nil, fmt.Sprintf("length prefix %d, payload has %d bytes", binary.BigEndian.Uint32(hdr[1:]), plen)
	case !bytes.Equal(dl, msg):
		return nil, "encoded data differs from the marshalled message"
	}
	if hdr[0] == 0 {
		if !bytes.Equal(pl, msg) {
			return nil, "uncompressed payload differs from the message"
		}
	} else {
		plain, ok := c06RefDecode(sc.fmt, pl)
		if !ok || !bytes.Equal(plain, msg) {
			return nil, fmt.Sprintf("compressed payload does not decode to the message (decodable=%v)", ok)
		}
	}
	return append(append([]byte{}, hdr...), pl...), ""
}

func c06CheckMsgHeader(r *vk.Run) (n int64) {
	sizes := []int{0, 1, 5, 16383, 16384, 16385}
	for _, dl := range sizes {
		for _, cl := range sizes {
			for _, pf := range []payloadFormat{compressionNone, compressionMade} {
				d := c06Plain("asc", dl)
				c := c06Plain("zeros", cl)
				data := mem.BufferSlice{mem.SliceBuffer(d[:dl/2]), mem.SliceBuffer(d[dl/2:])}
				comp := mem.BufferSlice{mem.SliceBuffer(c)}
				hdr, payload := msgHeader(data, comp, pf)
				want, wantLen := d, dl
				if pf == compressionMade {
					want, wantLen = c, cl
				}
				n++
				if len(hdr) != 5 || hdr[0] != byte(pf) || int(binary.BigEndian.Uint32(hdr[1:])) != wantLen || !bytes.Equal(payload.Materialize(), want) || payload.Len() != wantLen {
					r.Violation(c06P, fmt.Sprintf("msgHeader data=%d comp=%d pf=%d", dl, cl, pf), fmt.Sprintf("msgHeader(data %d bytes, compData %d bytes, pf=%d) = prefix %x, payload of %d bytes", dl, cl, pf, hdr, payload.Len()), nil)
				}
			}
		}
	}
	return
}

func c06GenC(r *vk.Run, sc c06SendCfg, parts int, thorough bool) []*c06Case {
	cfg := c06CfgByName(sc.recv)
	sizes := []int{0, 1, 5, 16383, 16384, 16385}
	type pm struct {
		id   string
		n    int
		wire []byte
	}
	var msgs []pm
	for _, kind := range []string{"zeros", "asc"} {
		for _, n := range sizes {
			m := c06Plain(kind, n)
			id := fmt.Sprintf("%s(%d)", kind, n)
			wire, fail := c06Prepare(m, sc, parts)
			r.Eval(c06P, 1)
			r.NontrivialN(c06P, 1)
			if fail != "" {
				r.Violation(c06P, fmt.Sprintf("send cfg=%s parts=%d msg=%s", sc.name, parts, id), "prepareMsg: "+fail, nil)
				continue
			}
			// the reference parser must see exactly the message that was sent
			exp := c06Oracle(wire, math.MaxInt, cfg, false)
			if len(exp) != 2 || exp[0].kind != c06KDeliver || !bytes.Equal(exp[0].msg, m) {
				r.Violation(c06P, fmt.Sprintf("send cfg=%s parts=%d msg=%s", sc.name, parts, id), "prepareMsg output is not one well-formed frame carrying the message: "+c06Summary(exp), nil)
				continue
			}
			msgs = append(msgs, pm{id, n, wire})
		}
	}
	var cases []*c06Case
	add := func(recipe string, st []byte, maxN int, bounds []int) {
		lims := []int{maxN, math.MaxInt}
		if thorough {
			lims = append(lims, 4*1024*1024)
		}
		if maxN > 0 {
			lims = append(lims, maxN-1)
		}
		var pos []int
		for _, b := range bounds {
			for d := -1; d <= 6; d++ {
				pos = append(pos, b+d)
			}
		}
		pos = append(pos, len(st)-1)
		sort.Ints(pos)
		var up []int
		for i, x := range pos {
			if x > 0 && x < len(st) && (i == 0 || x != pos[i-1]) {
				up = append(up, x)
			}
		}
		for _, lim := range lims {
			for _, buf := range []int{c06BufRef, c06BufSlice} {
				cases = append(cases, &c06Case{fam: "C", lim: lim, cfg: cfg, buf: buf, stream: st, pairs: thorough,
					recipe: fmt.Sprintf("C[send=%s parts=%d %s]", sc.name, parts, recipe), positions: up})
			}
		}
	}
	for _, a := range msgs {
		add(a.id, a.wire, a.n, []int{0})
		for _, b := range msgs {
			if !thorough && a.id[0] != b.id[0] {
				continue // quick: pairs of the same content kind only
			}
			mx := a.n
			if b.n > mx {
				mx = b.n
			}
			add(a.id+" "+b.id, append(append([]byte{}, a.wire...), b.wire...), mx, []int{0, len(a.wire)})
		}
	}
	return cases
}

// ---- direct check of the legacy gzip size cap ----

func c06CheckDoWithMaxSize(r *vk.Run) (n int64) {
	gd := NewGZIPDecompressor().(*gzipDecompressor)
	for _, lim := range []int{0, 1, 4, 5, 32, 1024} {
		for _, size := range []int{0, 1, lim, lim + 1, lim + 2, 100 * (lim + 1), 1 << 20} {
			p := c06Plain("zeros", size)
			out, err := gd.doWithMaxSize(bytes.NewReader(c06StdGzip(p)), int64(lim))
			n++
			key := fmt.Sprintf("doWithMaxSize lim=%d size=%d", lim, size)
			switch {
			case err != nil:
				r.Violation(c06P, key, fmt.Sprintf("legacy gzip decompressor failed on a valid %d-byte message: %v", size, err), nil)
			case len(out) > lim+1:
				r.Violation(c06P, key, fmt.Sprintf("legacy gzip decompressor materialised %d bytes with limit %d", len(out), lim), nil)
			case size <= lim && !bytes.Equal(out, p):
				r.Violation(c06P, key, fmt.Sprintf("legacy gzip decompressor returned %d bytes for a %d-byte message within the limit %d", len(out), size, lim), nil)
			case size > lim && len(out) <= lim:
				r.Violation(c06P, key, fmt.Sprintf("legacy gzip decompressor returned only %d bytes for a %d-byte message: the caller cannot tell that the limit %d was exceeded", len(out), size, lim), nil)
			}
		}
	}
	return
}

// ---- the leg ----

func TestVerif_C06_Framing(t *testing.T) {
	const P = c06P
	r := vk.Start(t, "c06_framing", "exploration", P)
	defer r.Finish()
	r.Rule(P, "A: message lists (<=2 quick / <=3 thorough; every message but the last deliverable) over flag in {0,1,2,0xFF} x declared length in {0,1,2,lim,lim+1,2^32-1} x actual payload in {declared, declared-1, 0}, messages that could be delivered in 3-4 payload contents (distinct bytes / zeros / 0xFF; nibble-compressed payloads inflating to exactly lim, lim+1, 14x, or invalid), plus truncated length prefixes and both end-of-stream styles of the reader for truncated payloads; limits {0,1,4,5,MaxInt}; 10 decompressor configurations; client side, and server side for 3 (quick) / all (thorough) configurations; EVERY chunking (2^(n-1)) of streams of <= 11 (quick) / 14 (thorough) bytes; longer streams: unsplit, uniform chunks of 1,2,3,5,7,16 bytes, every single cut, and (thorough, streams <= 18 bytes) every pair of cuts. B: real gzip payloads (stdlib-made, real compress() v1/legacy, 2-member, truncated, bad CRC) with plaintext sizes {0,1,lim-1..lim+2,8lim, thorough 65536}, limits {32,48,1024,MaxInt}, 4 gzip configurations x client/server, 1-2 (thorough 3) messages, uniform/single-cut (thorough: pair-cut <= 48 bytes) chunkings, ref-counted and slice buffers. C: prepareMsg output for sizes {0,1,5,16383,16384,16385} x 2 contents x 5 send compressors x 1/3-part marshalling, singly and in pairs, fed back through the receive half at limits {size-1,size,MaxInt, thorough 4MiB} in frame-size/5-byte/boundary chunkings. A run (stream,limit,config,side,chunking) is non-trivial if the stream is cut into >=2 chunks or must end in an error; all enumerated runs are distinct")
	if encoding.GetCompressor("c06-unregistered") != nil || encoding.GetCompressor("gzip") == nil {
		r.EngineError("compressor registry is not in the expected state")
		return
	}
	x := c06NewRunner(r)
	t0 := time.Now() // progress log only
	defer debug.SetGCPercent(debug.SetGCPercent(400))

	if f := r.ReplayFile(); f != "" {
		var rp struct {
			Fam, Cfg, Stream, Recipe string
			Lim, Eof, Buf            int
			Srv, Payinfo             bool
			Cuts                     []int
		}
		if err := r.LoadReplay(&rp); err != nil {
			r.EngineError("replay: %v", err)
			return
		}
		cfg := c06CfgByName(rp.Cfg)
		st, err := hex.DecodeString(rp.Stream)
		if cfg == nil || err != nil || rp.Stream == "" && rp.Recipe != "" {
			r.EngineError("replay: case is not replayable from the artefact (cfg=%q recipe=%q err=%v)", rp.Cfg, rp.Recipe, err)
			return
		}
		c := &c06Case{fam: rp.Fam, lim: rp.Lim, cfg: cfg, srv: rp.Srv, eof: rp.Eof, buf: rp.Buf, stream: st}
		c.exp = c06Oracle(st, c.lim, cfg, c.srv)
		w := x.workers[0]
		step, class, desc := w.runOne(c, rp.Cuts, rp.Payinfo)
		r.Eval(P, 1)
		fmt.Printf("replay: expected %s; result: %q %s\n", c06Summary(c.exp), class, desc)
		if class != "" {
			r.Violation(P, c.key(step, class), desc, c.replay(rp.Cuts, rp.Payinfo))
		}
		return
	}

	// sending half, direct checks
	var n int64
	c06Guard(r, "msgHeader checks", func() { n += c06CheckMsgHeader(r) })
	c06Guard(r, "doWithMaxSize checks", func() { n += c06CheckDoWithMaxSize(r) })
	r.Eval(P, n)
	r.NontrivialN(P, n)
	r.Set(P, "direct_msgHeader_and_doWithMaxSize_checks", n)

	cfgs := c06Cfgs()
	byName := map[string]*c06Cfg{}
	for _, c := range cfgs {
		byName[c.name] = c
	}
	gi := 0
	mine := func() bool { gi++; return r.Mine(gi) }

	// family A
	nAll := r.Pick(11, 14)
	maxMsgsA := r.Pick(2, 3)
	if c06DryRun { // sizing experiments only
		if v, err := strconv.Atoi(os.Getenv("C06_NALL")); err == nil {
			nAll = v
		}
		if v, err := strconv.Atoi(os.Getenv("C06_MAXMSGS")); err == nil {
			maxMsgsA = v
		}
		if v, err := strconv.Atoi(os.Getenv("C06_PAIRMAX")); err == nil {
			c06PairMax = v
		}
	}
	r.Set(P, "A_all_chunkings_up_to_stream_bytes", nAll)
	r.Set(P, "A_max_messages", maxMsgsA)
	var casesA int64
	for _, lim := range []int{0, 1, 4, 5, math.MaxInt} {
		for _, cn := range []string{"none", "none-identity", "unregistered", "nib-v1", "nib-v0", "nib-both", "nib-v1-noenc", "nib-v0-identity", "gzip-v1", "gzip-v0"} {
			for _, srv := range []bool{false, true} {
				if srv && !r.Thorough() && cn != "unregistered" && cn != "nib-v1" && cn != "none" {
					continue // quick: the server side only where the statement distinguishes it, plus two more
				}
				if !mine() || x.stop {
					continue
				}
				cases := c06GenA(lim, byName[cn], srv, maxMsgsA, nAll, r.Thorough())
				casesA += int64(len(cases))
				x.runGroup(cases)
			}
		}
	}
	r.Set(P, "A_cases", casesA)
	fmt.Printf("[c06] family A done at %.1fs, %d runs so far\n", time.Since(t0).Seconds(), x.totalRuns())

	// family B
	var casesB int64
	for _, lim := range []int{32, 48, 1024, math.MaxInt} {
		for _, cn := range []string{"gzip-v1", "gzip-v1-count", "gzip-v0", "gzip-both"} {
			for _, srv := range []bool{false, true} {
				if !mine() || x.stop {
					continue
				}
				var cases []*c06Case
				c06Guard(r, fmt.Sprintf("compress() while building family B lim=%s cfg=%s", c06LimStr(lim), cn), func() {
					cases = c06GenB(r, lim, byName[cn], srv, r.Pick(2, 3), r.Thorough())
				})
				casesB += int64(len(cases))
				x.runGroup(cases)
			}
		}
	}
	r.Set(P, "B_cases", casesB)
	fmt.Printf("[c06] family B done at %.1fs, %d runs so far\n", time.Since(t0).Seconds(), x.totalRuns())

	// family C
	var casesC int64
	for _, sc := range c06SendCfgs() {
		for _, parts := range []int{1, 3} {
			if !mine() || x.stop {
				continue
			}
			var cases []*c06Case
			c06Guard(r, fmt.Sprintf("prepareMsg while building family C send=%s parts=%d", sc.name, parts), func() {
				cases = c06GenC(r, sc, parts, r.Thorough())
			})
			casesC += int64(len(cases))
			x.runGroup(cases)
		}
	}
	r.Set(P, "C_cases", casesC)
	fmt.Printf("[c06] family C done at %.1fs, %d runs so far\n", time.Since(t0).Seconds(), x.totalRuns())
	x.finish()

	r.Sample(P, map[string]any{"family": "A", "stream": "00000000050102030405 | 01000000022161", "limit": 5, "config": "nib-v1", "chunking": "every one of the 2^(n-1)", "expected": "message 0102030405, then nibble payload 21 61 inflates to 6061.. within limit"})
	r.Sample(P, map[string]any{"family": "A", "stream": "0100000001e3", "limit": 4, "config": "nib-v1 (counting reader)", "expected": "RESOURCE_EXHAUSTED; at most 5 decompressed bytes pulled"})
	r.Sample(P, map[string]any{"family": "A", "stream": "ff00000000", "limit": 0, "config": "none", "expected": "error (unknown flag), never a message"})
	r.Sample(P, map[string]any{"family": "A", "stream": "0000000004414243", "limit": 4, "expected": "error (truncated payload), never a 3-byte message, never clean EOF"})
	r.Sample(P, map[string]any{"family": "B", "stream": "flag 1 + gzip(33 zero bytes), ~26 bytes on the wire", "limit": 32, "config": "gzip-v0 (legacy NewGZIPDecompressor)", "expected": "RESOURCE_EXHAUSTED"})
	r.Sample(P, map[string]any{"family": "C", "send": "prepareMsg(16385 bytes, gzip)", "receive": "chunks of 16384 bytes, limit 16385", "expected": "identical message"})
	r.Assume(P, "the scripted reader honours the documented Stream contract (ReadMessageHeader: io.EOF only with zero bytes read, io.ErrUnexpectedEOF after a partial prefix; Read: n bytes or an error); the transport's own reader is property C05's subject")
	r.Assume(P, "status codes for 'compressed flag with identity/absent encoding' (INTERNAL) and 'no decompressor' (UNIMPLEMENTED server / INTERNAL client) are taken from the gRPC compression specification; an unknown flag value and a truncated stream only have to be some non-EOF, non-RESOURCE_EXHAUSTED error")
	r.Assume(P, "a third-party legacy grpc.Decompressor (Do(io.Reader) ([]byte, error)) materialises its whole output inside user code: the limit+1 bound is asserted for encoding.Compressor readers and for the built-in legacy gzip decompressor only")
	r.Assume(P, "stdlib compress/gzip is the specification of the gzip format")
}
