//go:build verif

package grpc

// C06 oracle: a reference parser of the complete byte stream, written from the
// property statement (and the gRPC wire/compression specs for the status codes),
// independent of chunking and of the implementation.

import (
	"bytes"
	stdgzip "compress/gzip"
	"encoding/binary"
	"fmt"
	"io"
	"math"

	"google.golang.org/grpc/codes"
	"google.golang.org/grpc/encoding"
	"google.golang.org/grpc/status"
)

const (
	c06FmtNone = iota // no reference decoder: a compressed flag can never be decoded
	c06FmtNib
	c06FmtRLE
	c06FmtGzip
)

// c06Cfg describes one receive-side configuration: what the peer announced
// (grpc-encoding) and which decompressors the receiver was given.
type c06Cfg struct {
	name         string
	recvCompress string
	format       int  // which reference decoder describes the installed decompressor
	hasDecomp    bool // some decompressor (legacy or encoding.Compressor) is installed
	counting     bool // the installed encoding.Compressor counts the bytes it hands out
	mk           func(w *c06Worker) (Decompressor, encoding.Compressor)
}

const (
	c06KDeliver = iota
	c06KEOF
	c06KRE  // RESOURCE_EXHAUSTED required
	c06KErr // some other error required (never a message, never clean EOF)
)

// c06Exp is the expected result of one receive call.
type c06Exp struct {
	kind    int
	msg     []byte
	hasCode bool
	code    codes.Code
	allowRE bool
	class   string
}

func c06RefGunzip(b []byte) ([]byte, bool) {
	zr, err := stdgzip.NewReader(bytes.NewReader(b))
	if err != nil {
		return nil, false
	}
	out, err := io.ReadAll(zr)
	if err != nil {
		return nil, false
	}
	return out, true
}

func c06RefDecode(format int, b []byte) ([]byte, bool) {
	switch format {
	case c06FmtNib:
		return c06RefNib(b)
	case c06FmtRLE:
		return c06RefRLE(b)
	case c06FmtGzip:
		return c06RefGunzip(b)
	}
	return nil, false
}

// c06Oracle returns the sequence of results successive receive calls must
// produce for the given complete stream. The list always ends with the first
// non-deliver entry (clean EOF or an error: the stream is dead after an error).
func c06Oracle(stream []byte, limit int, cfg *c06Cfg, isServer bool) []c06Exp {
	var out []c06Exp
	pos := 0
	for {
		rem := len(stream) - pos
		if rem == 0 {
			return append(out, c06Exp{kind: c06KEOF, class: "eof"})
		}
		if rem < 5 {
			// truncated length prefix: an error, never "no more messages"
			return append(out, c06Exp{kind: c06KErr, class: "trunc-header"})
		}
		flag := stream[pos]
		declared := uint64(binary.BigEndian.Uint32(stream[pos+1 : pos+5]))
		if declared > uint64(limit) {
			return append(out, c06Exp{kind: c06KRE, class: "re-declared"})
		}
		if uint64(rem-5) < declared {
			return append(out, c06Exp{kind: c06KErr, class: "trunc-body"})
		}
		payload := stream[pos+5 : pos+5+int(declared)]
		pos += 5 + int(declared)
		switch flag {
		case 0:
			out = append(out, c06Exp{kind: c06KDeliver, msg: payload, class: "plain"})
		case 1:
			if cfg.recvCompress == "" || cfg.recvCompress == "identity" {
				// compression spec: Compressed-Flag set with identity/absent Message-Encoding => INTERNAL
				return append(out, c06Exp{kind: c06KErr, hasCode: true, code: codes.Internal, class: "flag1-identity"})
			}
			if !cfg.hasDecomp {
				// compression spec: unsupported algorithm => UNIMPLEMENTED on the server, INTERNAL on the client
				c := codes.Internal
				if isServer {
					c = codes.Unimplemented
				}
				return append(out, c06Exp{kind: c06KErr, hasCode: true, code: c, class: "flag1-no-decompressor"})
			}
			plain, ok := c06RefDecode(cfg.format, payload)
			if !ok {
				return append(out, c06Exp{kind: c06KErr, allowRE: true, class: "corrupt"})
			}
			if uint64(len(plain)) > uint64(limit) {
				return append(out, c06Exp{kind: c06KRE, class: "re-decompressed"})
			}
			out = append(out, c06Exp{kind: c06KDeliver, msg: plain, class: "decompressed"})
		default:
			return append(out, c06Exp{kind: c06KErr, class: "bad-flag"})
		}
	}
}

// c06Summary is the outcome class of a whole stream: delivered count + final class.
func c06Summary(exp []c06Exp) string {
	return fmt.Sprintf("%dmsg+%s", len(exp)-1, exp[len(exp)-1].class)
}

// c06Compare checks one observed receive result against the expectation.
// It returns "" or a short failure class and a description.
func c06Compare(e *c06Exp, got []byte, err error, pan any) (string, string) {
	if pan != nil {
		return "panic", fmt.Sprintf("receive path panicked: %v (expected %s)", pan, e.class)
	}
	switch e.kind {
	case c06KDeliver:
		if err != nil {
			return "error-instead-of-message", fmt.Sprintf("expected message %x (%s), got error %v", e.msg, e.class, err)
		}
		if !bytes.Equal(got, e.msg) {
			return "wrong-message", fmt.Sprintf("expected message %s (%s), got %s", c06Hex(e.msg), e.class, c06Hex(got))
		}
	case c06KEOF:
		if err == nil {
			return "message-after-end", fmt.Sprintf("expected io.EOF, got message %s", c06Hex(got))
		}
		if err != io.EOF {
			return "error-instead-of-eof", fmt.Sprintf("expected io.EOF, got %v", err)
		}
	case c06KRE:
		if err == nil {
			return "message-instead-of-RE", fmt.Sprintf("expected RESOURCE_EXHAUSTED (%s), got message %s", e.class, c06Hex(got))
		}
		if status.Code(err) != codes.ResourceExhausted {
			return "wrong-code", fmt.Sprintf("expected RESOURCE_EXHAUSTED (%s), got %v", e.class, err)
		}
	case c06KErr:
		if err == nil {
			return "message-instead-of-error", fmt.Sprintf("expected an error (%s), got message %s", e.class, c06Hex(got))
		}
		if err == io.EOF {
			return "eof-instead-of-error", fmt.Sprintf("expected an error (%s), got clean io.EOF", e.class)
		}
		c := status.Code(err)
		if c == codes.ResourceExhausted && !e.allowRE {
			return "RE-within-limit", fmt.Sprintf("sizes are within the limit (%s) but got %v", e.class, err)
		}
		if e.hasCode && c != e.code {
			return "wrong-code", fmt.Sprintf("expected code %v (%s), got %v", e.code, e.class, err)
		}
	}
	return "", ""
}

func c06Hex(b []byte) string {
	if len(b) <= 48 {
		return fmt.Sprintf("%x", b)
	}
	return fmt.Sprintf("%x..(%d bytes)", b[:40], len(b))
}

func c06LimStr(l int) string {
	if l == math.MaxInt {
		return "MaxInt"
	}
	return fmt.Sprint(l)
}
