//go:build verif

package idle

import (
	"fmt"
	"sync"
	"testing"
	"time"

	"google.golang.org/grpc/internal/verif/vk"
	"google.golang.org/grpc/internal/verif/vsched"
)

// recCC is the recording ClientConn: the oracle's view of the channel. Its own
// bookkeeping uses native sync (the harness file is not instrumented), so it is
// invisible to the scheduler and atomic with the step that calls it.
type recCC struct {
	mu      sync.Mutex
	x       *vsched.X
	idle    bool // oracle state: channel currently in idle mode
	active  int  // RPCs between OnCallBegin's return and OnCallEnd's call
	enters  int
	exits   int
	closed  bool
	relaxed bool // scenarios with Close: RPC-activity clauses do not apply after close
}

func (c *recCC) EnterIdleMode() {
	// the real ClientConn.EnterIdleMode takes time (locks, tears down the
	// resolver and balancer): it is not atomic with the manager's bookkeeping
	vsched.Yield()
	c.mu.Lock()
	defer c.mu.Unlock()
	vsched.Observe("enter(active=%d)", c.active)
	if c.idle {
		c.x.Fail("C29", "enter-while-idle", "EnterIdleMode called while the channel is already idle (enter/exit do not alternate)")
	}
	if c.active > 0 && !(c.relaxed && c.closed) {
		c.x.Fail("C29", "idle-under-active-rpc", "channel entered idle mode while %d RPC(s) are between start and end", c.active)
	}
	c.idle = true
	c.enters++
}

func (c *recCC) ExitIdleMode() {
	// the real ClientConn.ExitIdleMode takes time (re-creates the resolver and
	// balancer): give other threads a chance to run before the channel has
	// actually left idle mode
	vsched.Yield()
	c.mu.Lock()
	defer c.mu.Unlock()
	vsched.Observe("exit")
	if !c.idle {
		c.x.Fail("C29", "exit-while-active", "ExitIdleMode called while the channel is not idle (enter/exit do not alternate)")
	}
	c.idle = false
	c.exits++
}

func (c *recCC) rpc(m *Manager, id int) {
	m.OnCallBegin()
	c.mu.Lock()
	vsched.Observe("begin%d(idle=%v)", id, c.idle)
	if c.idle && !(c.relaxed && c.closed) {
		c.x.Fail("C29", "begin-returned-while-idle", "OnCallBegin returned for RPC %d while the channel is still in idle mode", id)
	}
	c.active++
	c.mu.Unlock()
	vsched.Yield() // the RPC is in flight
	c.mu.Lock()
	c.active--
	vsched.Observe("end%d", id)
	c.mu.Unlock()
	m.OnCallEnd()
}

const c29Timeout = 10 * time.Second

// start states (built in the pass-through set-up phase of the execution)
func c29Setup(x *vsched.X, start string, relaxed bool) (*Manager, *recCC) {
	cc := &recCC{x: x, idle: true, relaxed: relaxed}
	m := NewManager(cc, c29Timeout)
	switch start {
	case "idle":
	case "active-bit": // not idle, activity bit set, timer armed for t=10s
		m.OnCallBegin()
		m.OnCallEnd()
	case "active-quiet": // not idle, activity bit clear, timer armed 5s ahead
		m.OnCallBegin()
		time.Sleep(5 * time.Second)
		m.OnCallEnd()
		time.Sleep(5 * time.Second) // callback at t=10: clears the bit, re-arms for t=15
		time.Sleep(time.Millisecond)
	}
	cc.mu.Lock()
	cc.enters, cc.exits = 0, 0
	cc.mu.Unlock()
	return m, cc
}

func c29Scenario(name, start string, rpcs, advances int, connect, closer bool, bound int) vsched.Scenario {
	return vsched.Scenario{Name: name, Bound: bound, MinOutcomes: 2, Body: func(x *vsched.X) {
		m, cc := c29Setup(x, start, closer)
		for i := 0; i < rpcs; i++ {
			id := i
			x.Go(fmt.Sprintf("rpc%d", id), func() { cc.rpc(m, id) })
		}
		if advances > 0 {
			x.Go("clock", func() {
				for i := 0; i < advances; i++ {
					vsched.Advance(c29Timeout)
				}
			})
		}
		if connect {
			x.Go("connect", func() { m.ExitIdleMode() })
		}
		if closer {
			x.Go("close", func() {
				cc.mu.Lock()
				cc.closed = true // from here on the RPC-activity clauses are moot
				cc.mu.Unlock()
				m.Close()
			})
		}
		x.Final(func(x *vsched.X) {
			if x.Stuck != "" {
				x.Fail("C29", "deadlock", "execution stuck: %s", x.Stuck)
			}
			for _, p := range x.Panics {
				x.Fail("C29", "panic", "%s", p)
			}
			cc.mu.Lock()
			x.Outcome(fmt.Sprintf("enters=%d exits=%d idle=%v", cc.enters, cc.exits, cc.idle))
			cc.mu.Unlock()
		})
		x.Cleanup(func() { m.Close() })
	}}
}

func TestVerif_C29_Idle(t *testing.T) {
	const P = "C29"
	r := vk.Start(t, "c29_idle", "exploration", P)
	defer r.Finish()
	r.Rule(P, "every schedule with at most B preemptions (quick B=2, thorough B=3) of the real idle.Manager (instrumented at check time: each atomic op / lock is a scheduling point; timers are real time.AfterFunc timers in a synctest bubble fired by an explicit Advance step); threads: 2-3 RPCs (OnCallBegin; in flight; OnCallEnd), clock (1-2 timeout expirations), optional Connect and Close; start states idle / active with activity bit / active quiet; non-trivial = executions whose schedule deviates from the default one (>=1 preemption or non-default choice), distinct by construction of the DFS")
	r.Assume(P, "scheduling points at sync/atomic operations suffice (data accessed without synchronisation is not interleaved; guarded by the race detector in the repo's own tests)")
	r.Assume(P, "sequentially consistent atomics")
	b := r.Pick(2, 3)
	scs := []vsched.Scenario{
		c29Scenario("idle/2rpc+clock2", "idle", 2, 2, false, false, b),
		c29Scenario("activebit/2rpc+clock2", "active-bit", 2, 2, false, false, b),
		c29Scenario("quiet/2rpc+clock1", "active-quiet", 2, 1, false, false, b),
		c29Scenario("quiet/1rpc+clock1+connect", "active-quiet", 1, 1, true, false, b),
		c29Scenario("idle/2rpc+clock1+close", "idle", 2, 1, false, true, b),
	}
	if r.Thorough() {
		scs = append(scs,
			c29Scenario("idle/3rpc+clock2", "idle", 3, 2, false, false, 2),
			c29Scenario("quiet/2rpc+clock2+connect", "active-quiet", 2, 2, true, false, 2),
		)
	}
	vsched.RunScenarios(t, r, []string{P}, scs)
	r.Sample(P, map[string]any{"scenario": "quiet/2rpc+clock1", "threads": []string{"rpc0: OnCallBegin; in flight; OnCallEnd", "rpc1: same", "clock: Advance(10s) fires the real idle timer; handleIdleTimeout runs as an adopted thread"}})
	r.Sample(P, map[string]any{"schedule": "default then preempt rpc0 between AddInt32(activeCallsCount) and ExitIdleMode's Lock, run timer callback to its CAS", "kind": "one-preemption execution"})
}
