//go:build verif

package h_c25

// C25 (engine E4, level exploration): every order, up to a depth bound, of the
// events {RPC arrives, handler k returns, client cancels RPC k, GracefulStop
// (asynchronous), Stop, client closes the connection} is played against a REAL
// grpc.Server (MaxConcurrentStreams 1, 2 or unlimited) by a scripted raw
// HTTP/2 client, one testing/synctest bubble per history, running to
// quiescence after every event.
//
// Handlers are owned by the explorer: handler k blocks until the explorer
// releases it with a status; when its context is cancelled it records that and
// keeps running ("lingers") until released — so a handler can outlive its
// stream, which is what the per-connection handler quota and the handler wait
// of GracefulStop are about.
//
// Oracle (from the statement):
//   - whenever GracefulStop has returned, no handler is running (sampled at the
//     instant it returns and at every later quiescence);
//   - a handler that returns status S while its RPC is undisturbed (not
//     cancelled by the client, connection not closed by the client, Stop not
//     called) makes the client see trailers with grpc-status S — before,
//     during and after a pending GracefulStop; an RPC the server had to accept
//     (sent before GracefulStop/Stop, below the stream limit) and that stays
//     undisturbed is eventually served and completed that way;
//   - no handler ever starts for an RPC sent after GracefulStop or Stop was
//     called;
//   - after Stop every running handler has seen its context cancelled and every
//     unfinished RPC has a non-OK outcome at the client (RST_STREAM, non-OK
//     trailers or connection closed);
//   - at no instant do more than MaxConcurrentStreams handlers run.

import (
	"context"
	"encoding/json"
	"fmt"
	"io"
	"net"
	"os"
	"runtime"
	"runtime/debug"
	"sort"
	"strconv"
	"strings"
	"sync"
	"testing"
	"testing/synctest"
	"time"

	"golang.org/x/net/http2"
	"google.golang.org/grpc"
	"google.golang.org/grpc/codes"
	"google.golang.org/grpc/grpclog"
	"google.golang.org/grpc/internal/verif/vk"
	"google.golang.org/grpc/internal/verif/wire"
	"google.golang.org/grpc/mem"
	"google.golang.org/grpc/metadata"
	"google.golang.org/grpc/status"
)

const (
	c25P    = "C25"
	c25MaxK = 3 // RPCs on connection 1 are numbered 1..3
	c25NK   = 4 // RPC 4 is the one RPC of connection 2
)

var c25Events = []string{"arrive", "ret1", "ret2", "ret3", "gs", "stop", "close", "cancel1", "cancel2", "cancel3"}

// status handler k returns when the explorer releases it
var c25Code = [c25NK + 1]codes.Code{0, codes.OK, codes.NotFound, codes.OK, codes.AlreadyExists}

// events of the second scenario family: a second connection whose HTTP/2
// handshake is split (dial2: accepted by the listener, nothing sent yet;
// preface2: client preface+SETTINGS; arrive2: RPC 4 on it)
var c25Events2 = []string{"arrive", "ret1", "gs", "stop", "close", "cancel1", "dial2", "preface2", "arrive2", "ret4"}

// ---------------------------------------------------------------- explorer-owned handlers

type c25Rec struct {
	mu         sync.Mutex
	starts     []int // RPC numbers in handler start order
	running    map[int]bool
	maxRunning int
	cancelSeen map[int]bool
	startedCtx map[int]bool // context already cancelled when the handler started
	returned   map[int]string
	rel        [c25NK + 1]chan codes.Code
	linger     chan struct{}
	lingerOff  bool
}

func c25NewRec() *c25Rec {
	rc := &c25Rec{running: map[int]bool{}, cancelSeen: map[int]bool{}, startedCtx: map[int]bool{}, returned: map[int]string{}, linger: make(chan struct{})}
	for k := range rc.rel {
		rc.rel[k] = make(chan codes.Code, 1)
	}
	return rc
}

func (rc *c25Rec) closeLinger() {
	rc.mu.Lock()
	if !rc.lingerOff {
		rc.lingerOff = true
		close(rc.linger)
	}
	rc.mu.Unlock()
}

func (rc *c25Rec) handle(ctx context.Context) error {
	k := 0
	if md, ok := metadata.FromIncomingContext(ctx); ok {
		if v := md.Get("x-req"); len(v) == 1 {
			k, _ = strconv.Atoi(v[0])
		}
	}
	if k < 1 || k > c25NK {
		k = 0
	}
	rc.mu.Lock()
	rc.starts = append(rc.starts, k)
	rc.running[k] = true
	n1 := 0 // handlers of connection 1 (RPC 4 lives on connection 2; the limit is per connection)
	for j := range rc.running {
		if j <= c25MaxK {
			n1++
		}
	}
	if n1 > rc.maxRunning {
		rc.maxRunning = n1
	}
	rc.mu.Unlock()
	how := ""
	var code codes.Code
	select {
	case code = <-rc.rel[k]:
		how = "released"
	case <-ctx.Done():
		rc.mu.Lock()
		rc.cancelSeen[k] = true
		rc.mu.Unlock()
		select {
		case code = <-rc.rel[k]:
			how = "released-after-cancel"
		case <-rc.linger:
			how, code = "lingered", codes.Canceled
		}
	}
	rc.mu.Lock()
	delete(rc.running, k)
	rc.returned[k] = how
	rc.mu.Unlock()
	if code == codes.OK {
		return nil
	}
	return status.Error(code, "c25 handler status")
}

func (rc *c25Rec) stream(_ any, ss grpc.ServerStream) error { return rc.handle(ss.Context()) }

func (rc *c25Rec) unary(_ any, ctx context.Context, dec func(any) error, _ grpc.UnaryServerInterceptor) (any, error) {
	var in []byte
	if err := dec(&in); err != nil {
		return nil, err
	}
	if err := rc.handle(ctx); err != nil {
		return nil, err
	}
	return []byte("ok"), nil
}

type c25Snap struct {
	starts     []int
	running    []int
	maxRunning int
	cancelSeen map[int]bool
	returned   map[int]string
}

func (rc *c25Rec) snap() c25Snap {
	rc.mu.Lock()
	defer rc.mu.Unlock()
	s := c25Snap{starts: append([]int(nil), rc.starts...), maxRunning: rc.maxRunning, cancelSeen: map[int]bool{}, returned: map[int]string{}}
	for k := range rc.running {
		s.running = append(s.running, k)
	}
	sort.Ints(s.running)
	for k, v := range rc.cancelSeen {
		s.cancelSeen[k] = v
	}
	for k, v := range rc.returned {
		s.returned[k] = v
	}
	return s
}

func (rc *c25Rec) nRunning() int {
	rc.mu.Lock()
	defer rc.mu.Unlock()
	return len(rc.running)
}

type c25Codec struct{}

func (c25Codec) Name() string { return "verif-raw" }
func (c25Codec) Marshal(v any) (mem.BufferSlice, error) {
	switch b := v.(type) {
	case []byte:
		return mem.BufferSlice{mem.SliceBuffer(b)}, nil
	case *[]byte:
		return mem.BufferSlice{mem.SliceBuffer(*b)}, nil
	}
	return nil, fmt.Errorf("c25Codec: unsupported %T", v)
}
func (c25Codec) Unmarshal(data mem.BufferSlice, v any) error {
	p, ok := v.(*[]byte)
	if !ok {
		return fmt.Errorf("c25Codec: unsupported %T", v)
	}
	*p = data.Materialize()
	return nil
}

// ---------------------------------------------------------------- one history

type c25Fail struct{ Key, Desc string }

type c25Res struct {
	abortAt int // index of the first inapplicable event, -1 if none
	fails   []c25Fail
	obs     []string // outcome classes
	engine  string
	log     string
	trace   []string
	nontriv bool
}

type c25Replay struct {
	MCS     int      `json:"mcs"`
	Workers int      `json:"workers"`
	Events  []string `json:"events"`
}

// c25Cfg is one server configuration: grpc.MaxConcurrentStreams (0: not set)
// and grpc.NumStreamWorkers (0: not set, a goroutine per stream).
type c25Cfg struct{ MCS, Workers int }

const c25HandshakeTimeout = 120 * time.Second // grpc.Server's default ConnectionTimeout

func c25HistString(cfg c25Cfg, evs []string) string {
	m := "unlimited"
	if cfg.MCS > 0 {
		m = strconv.Itoa(cfg.MCS)
	}
	w := ""
	if cfg.Workers > 0 {
		w = fmt.Sprintf(",workers=%d", cfg.Workers)
	}
	return "mcs=" + m + w + ": " + strings.Join(evs, " ")
}

func c25Run(t *testing.T, cfg c25Cfg, maxArr int, evs []string, verbose bool) (res c25Res) {
	res.abortAt = -1
	mcs := cfg.MCS
	synctest.Test(t, func(t *testing.T) {
		gBase := runtime.NumGoroutine()
		fail := func(key, format string, a ...any) {
			for _, f := range res.fails {
				if f.Key == key {
					return
				}
			}
			res.fails = append(res.fails, c25Fail{key, fmt.Sprintf(format, a...)})
		}
		rc := c25NewRec()
		opts := []grpc.ServerOption{grpc.ForceServerCodecV2(c25Codec{})}
		if mcs > 0 {
			opts = append(opts, grpc.MaxConcurrentStreams(uint32(mcs)))
		}
		if cfg.Workers > 0 {
			opts = append(opts, grpc.NumStreamWorkers(uint32(cfg.Workers)))
		}
		srv := grpc.NewServer(opts...)
		srv.RegisterService(&grpc.ServiceDesc{
			ServiceName: "s",
			HandlerType: (*any)(nil),
			Methods:     []grpc.MethodDesc{{MethodName: "u", Handler: rc.unary}},
			Streams:     []grpc.StreamDesc{{StreamName: "st", Handler: rc.stream, ServerStreams: true, ClientStreams: true}},
		}, rc)
		lis := wire.NewListener()
		served := make(chan error, 1)
		go func() { served <- srv.Serve(lis) }()
		conn, err := lis.Dial()
		if err != nil {
			res.engine = "dial: " + err.Error()
			srv.Stop()
			return
		}
		peer := wire.NewClientPeer(conn)
		peer.AutoAckSettings, peer.AutoAckPing = true, true
		peer.WriteSettings()
		synctest.Wait()

		// ---- reference model / client-side ledger
		var (
			sent         int
			gsCalled     bool
			stopCalled   bool
			clientClosed bool
			open         = map[uint32]bool{} // streams open in the client's HTTP/2 state machine
			sentAfterGS  [c25NK + 1]bool
			sentAfterSt  [c25NK + 1]bool
			accepted     [c25NK + 1]bool // the server had to accept it
			disturbed    [c25NK + 1]bool // client cancel / client close / Stop happened while unfinished
			cancelled    [c25NK + 1]bool
			ended        [c25NK + 1]bool   // client saw END_STREAM or RST_STREAM
			trailer      [c25NK + 1]string // grpc-status seen
			rstSeen      [c25NK + 1]bool
			expect       [c25NK + 1]bool // handler returned undisturbed: client must see its status
			logPos       int
			seenStarts   int
			gsRet        = -1 // running handlers at the instant GracefulStop returned
			gsRetMu      sync.Mutex
			stopRet      bool
			// second connection
			conn2      net.Conn
			peer2      *wire.Peer
			dialed2    bool
			prefaced2  bool
			hsTimedOut bool
			sent4      bool
			logPos2    int
			// GracefulStop/Stop called while a connection is still in its HTTP/2
			// handshake take effect on the other connections only when that
			// handshake is resolved (Server.stop waits for it before draining /
			// closing): the obligations "afterwards" are judged from then on.
			gsEff, stopEff bool
		)
		midHS := func() bool { return dialed2 && !prefaced2 && !hsTimedOut }
		ks := func() []int {
			var l []int
			for k := 1; k <= sent; k++ {
				l = append(l, k)
			}
			if sent4 {
				l = append(l, 4)
			}
			return l
		}
		// connGone: the connection of RPC k is closed as far as the client knows
		connGone := func(k int) bool {
			if k == 4 {
				return peer2 == nil || peer2.Closed()
			}
			return clientClosed || peer.Closed()
		}
		finished := func(k int) bool { return ended[k] }
		settle := func() {
			if peer2 != nil {
				lg2 := peer2.Log()
				for _, f := range lg2[logPos2:] {
					if f.Stream != 1 {
						continue
					}
					switch f.Type {
					case "HEADERS":
						if f.EndStream {
							ended[4] = true
							if gs, ok := wire.Field(f.Fields, "grpc-status"); ok {
								trailer[4] = gs
							} else {
								trailer[4] = "missing"
							}
						}
					case "RST_STREAM":
						ended[4], rstSeen[4] = true, true
					}
				}
				logPos2 = len(lg2)
			}
			lg := peer.Log()
			for _, f := range lg[logPos:] {
				if f.Stream == 0 || f.Stream%2 == 0 || f.Stream > 2*c25MaxK {
					continue
				}
				k := int(f.Stream+1) / 2
				switch f.Type {
				case "HEADERS":
					if f.EndStream {
						ended[k] = true
						delete(open, f.Stream)
						if gs, ok := wire.Field(f.Fields, "grpc-status"); ok {
							trailer[k] = gs
						} else {
							trailer[k] = "missing"
						}
					}
				case "RST_STREAM":
					ended[k], rstSeen[k] = true, true
					delete(open, f.Stream)
				}
			}
			logPos = len(lg)
			if peer.Closed() {
				open = map[uint32]bool{}
			}
		}
		check := func(after string) {
			s := rc.snap()
			for _, k := range s.starts[seenStarts:] {
				switch {
				case k == 0:
					fail("handler-unattributable", "after %s: a handler started for a request without a valid x-req tag", after)
				case sentAfterGS[k]:
					fail("handler-started-after-GracefulStop", "after %s: handler %d started although RPC %d was sent after GracefulStop had been called", after, k, k)
				case sentAfterSt[k]:
					fail("handler-started-after-Stop", "after %s: handler %d started although RPC %d was sent after Stop had been called", after, k, k)
				}
			}
			seenStarts = len(s.starts)
			run1 := 0
			for _, k := range s.running {
				if k <= c25MaxK {
					run1++
				}
			}
			if mcs > 0 && (run1 > mcs || s.maxRunning > mcs) {
				fail(fmt.Sprintf("handlers-over-limit/mcs=%d", mcs), "after %s: %d handlers running now, peak %d, on connection 1 with MaxConcurrentStreams=%d (NumStreamWorkers=%d)", after, run1, s.maxRunning, mcs, cfg.Workers)
			}
			// a stream the server had to admit waits for a handler slot only while
			// every slot is taken: once a handler returns it is served
			if mcs > 0 && run1 < mcs && !stopCalled {
				started := map[int]bool{}
				for _, k := range s.starts {
					started[k] = true
				}
				for k := 1; k <= sent; k++ {
					if accepted[k] && !started[k] && !cancelled[k] && !connGone(k) {
						fail(fmt.Sprintf("waiting-rpc-not-served-with-free-slot/mcs=%d", mcs), "after %s: RPC %d was admitted and is undisturbed, its handler has not started although only %d of %d handler slots are taken (NumStreamWorkers=%d)", after, k, run1, mcs, cfg.Workers)
					}
				}
			}
			gsRetMu.Lock()
			gr := gsRet
			gsRetMu.Unlock()
			if gr > 0 {
				fail("GracefulStop-returned-before-handlers", "after %s: GracefulStop returned while %d handler(s) were still running", after, gr)
			}
			if gr >= 0 && len(s.running) > 0 {
				fail("handler-running-after-GracefulStop-returned", "after %s: handlers %v running although GracefulStop has returned", after, s.running)
			}
			for _, k := range ks() {
				if expect[k] {
					expect[k] = false
					want := strconv.Itoa(int(c25Code[k]))
					if trailer[k] != want {
						fail("rpc-lost-handler-status", "after %s: handler %d returned grpc-status %s for an undisturbed RPC (gs called=%v) but the client saw trailers=%q rst=%v closed=%v", after, k, want, gsCalled, trailer[k], rstSeen[k], connGone(k))
					}
				}
			}
			if stopEff {
				for _, k := range s.running {
					if !s.cancelSeen[k] {
						fail("Stop-did-not-cancel-handler-context", "after %s: handler %d is running and its context is not cancelled although Stop was called", after, k)
					}
				}
				for _, k := range ks() {
					if !finished(k) && !cancelled[k] && !connGone(k) {
						fail("Stop-unfinished-rpc-without-outcome", "after %s: RPC %d is unfinished after Stop but the client saw neither RST_STREAM, trailers nor a closed connection", after, k)
					}
				}
			}
		}
		disturbAll := func() {
			for _, k := range ks() {
				if !finished(k) {
					disturbed[k] = true
				}
			}
		}
		release := func(k int) {
			if !disturbed[k] && !cancelled[k] && !stopCalled && !connGone(k) {
				expect[k] = true
			}
			rc.rel[k] <- c25Code[k]
		}
		isRunning := func(k int) bool {
			for _, r := range rc.snap().running {
				if r == k {
					return true
				}
			}
			return false
		}

		// queued: an RPC the transport had to admit whose handler has not started
		// (it waits for the per-connection handler quota).
		queued := func() bool {
			started := map[int]bool{}
			for _, k := range rc.snap().starts {
				started[k] = true
			}
			for _, k := range ks() {
				if accepted[k] && !started[k] {
					return true
				}
			}
			return false
		}
		apply := func(e string) bool {
			switch {
			case e == "arrive":
				if sent >= maxArr || sent >= c25MaxK || clientClosed || peer.Closed() {
					return false
				}
				sent++
				k := sent
				id := uint32(2*k - 1)
				sentAfterGS[k], sentAfterSt[k] = gsEff, stopEff
				accepted[k] = !gsCalled && !stopCalled && (mcs == 0 || len(open) < mcs)
				open[id] = true
				path := "/s/st"
				if k == 2 {
					path = "/s/u"
				}
				peer.WriteHeaders(id, [][2]string{{":method", "POST"}, {":scheme", "http"}, {":path", path}, {":authority", "a.test"},
					{"content-type", "application/grpc"}, {"te", "trailers"}, {"x-req", strconv.Itoa(k)}}, false)
				peer.WriteData(id, true, wire.GrpcMsg(false, []byte("x")))
			case strings.HasPrefix(e, "ret"):
				k := int(e[3] - '0')
				if !isRunning(k) {
					return false
				}
				release(k)
			case strings.HasPrefix(e, "cancel"):
				k := int(e[6] - '0')
				if k > sent || cancelled[k] || finished(k) || clientClosed || peer.Closed() {
					return false
				}
				cancelled[k], disturbed[k] = true, true
				delete(open, uint32(2*k-1))
				peer.WriteRST(uint32(2*k-1), http2.ErrCodeCancel)
			case e == "gs":
				if gsCalled || queued() {
					// queued: the connection's reader is parked in the handler quota
					// inside operateHeaders (holding maxStreamMu); the GOAWAY writer
					// would block on that mutex, which a bubble cannot wait out.
					return false
				}
				if stopCalled {
					rc.closeLinger() // see the note on Server.mu in claims.json
				}
				gsCalled = true
				if !midHS() {
					gsEff = true
				}
				go func() {
					srv.GracefulStop()
					n := rc.nRunning()
					gsRetMu.Lock()
					gsRet = n
					gsRetMu.Unlock()
				}()
			case e == "stop":
				if stopCalled {
					return false
				}
				if gsCalled {
					rc.closeLinger()
				}
				stopCalled = true
				if !midHS() {
					stopEff = true
				}
				disturbAll()
				go func() {
					srv.Stop()
					gsRetMu.Lock()
					stopRet = true
					gsRetMu.Unlock()
				}()
			case e == "close":
				if clientClosed || peer.Closed() {
					return false
				}
				clientClosed = true
				disturbAll()
				open = map[uint32]bool{}
				peer.Close()
			case e == "dial2":
				if dialed2 {
					return false
				}
				c, err := lis.Dial()
				if err != nil {
					return false // the listener is closed (gs/stop was called)
				}
				conn2, dialed2 = c, true
			case e == "preface2":
				if !dialed2 || prefaced2 {
					return false
				}
				prefaced2 = true
				peer2 = wire.NewClientPeer(conn2)
				peer2.AutoAckSettings, peer2.AutoAckPing = true, true
				peer2.WriteSettings()
				// the handshake the server was waiting for is resolved
				gsEff, stopEff = gsCalled, stopCalled
			case e == "arrive2":
				if peer2 == nil || sent4 || peer2.Closed() {
					return false
				}
				sent4 = true
				sentAfterGS[4], sentAfterSt[4] = gsEff, stopEff
				accepted[4] = !gsCalled && !stopCalled
				peer2.WriteHeaders(1, [][2]string{{":method", "POST"}, {":scheme", "http"}, {":path", "/s/st"}, {":authority", "a.test"},
					{"content-type", "application/grpc"}, {"te", "trailers"}, {"x-req", "4"}}, false)
				peer2.WriteData(1, true, wire.GrpcMsg(false, []byte("x")))
			default:
				res.engine = "unknown event " + e
				return false
			}
			return true
		}

		state := func() string {
			s := rc.snap()
			gsRetMu.Lock()
			gr, sr := gsRet, stopRet
			gsRetMu.Unlock()
			return fmt.Sprintf("sent=%d/%v running=%v open=%v trailers=%v rst=%v gs=%v/eff=%v/ret=%d stop=%v/eff=%v/ret=%v closed(client=%v,peer=%v) conn2(dialed=%v,prefaced=%v,closed=%v)", sent, sent4, s.running, len(open), trailer[1:], rstSeen[1:], gsCalled, gsEff, gr, stopCalled, stopEff, sr, clientClosed, peer.Closed(), dialed2, prefaced2, peer2 != nil && peer2.Closed())
		}

		for i, e := range evs {
			if res.engine != "" {
				break
			}
			if !apply(e) {
				res.abortAt = i
				break
			}
			synctest.Wait()
			settle()
			check(e)
			if verbose {
				res.trace = append(res.trace, e+" => "+state())
			}
		}

		// ---- end of history: let everything finish, then the eventual obligations
		rc.closeLinger()
		for round := 0; round < 2*c25NK+2; round++ {
			run := rc.snap().running
			if len(run) == 0 {
				break
			}
			for _, k := range run {
				if k >= 1 && k <= c25NK && len(rc.rel[k]) == 0 {
					release(k)
				}
			}
			synctest.Wait()
			settle()
			check("drain")
		}
		// the server keeps a drained connection for up to 1 s waiting for the
		// client to close it first: let that (virtual) second pass
		time.Sleep(2 * time.Second)
		synctest.Wait()
		settle()
		check("drain")
		if midHS() {
			// a connection is still mid-handshake: the server gives up on it after
			// ConnectionTimeout; only then does a pending Stop/GracefulStop go on
			time.Sleep(c25HandshakeTimeout + 5*time.Second)
			hsTimedOut = true
			gsEff, stopEff = gsCalled, stopCalled
			synctest.Wait()
			settle()
			check("handshake-timeout")
			time.Sleep(2 * time.Second)
			synctest.Wait()
			settle()
			check("handshake-timeout")
		}
		s := rc.snap()
		if len(s.running) != 0 {
			fail("handler-never-returns", "handlers %v still running after every handler was released", s.running)
		}
		for _, k := range ks() {
			// (a connection closed by the server is only expected after a GracefulStop, once everything finished)
			if accepted[k] && !disturbed[k] && !cancelled[k] && !(k != 4 && clientClosed) && !stopCalled && (!connGone(k) || gsCalled) {
				want := strconv.Itoa(int(c25Code[k]))
				if trailer[k] != want {
					fail("accepted-rpc-not-completed", "RPC %d was sent before GracefulStop/Stop below the stream limit and stayed undisturbed, but the client saw trailers=%q rst=%v (want grpc-status %s); handler returned: %q", k, trailer[k], rstSeen[k], want, s.returned[k])
				}
			}
		}
		gsRetMu.Lock()
		gr := gsRet
		gsRetMu.Unlock()
		if gsCalled && gr < 0 {
			fail("GracefulStop-never-returns", "GracefulStop has not returned although every handler returned and the client acknowledged the GOAWAY ping")
		}
		gsRetMu.Lock()
		sr := stopRet
		gsRetMu.Unlock()
		if stopCalled && !sr {
			fail("Stop-never-returns", "Stop has not returned although every handler returned and no connection is left in its handshake")
		}
		// outcome class of this history (vacuity statistics)
		var cls []string
		for _, k := range ks() {
			c := "-"
			switch {
			case trailer[k] != "":
				c = "T" + trailer[k]
			case rstSeen[k]:
				c = "R"
			case cancelled[k]:
				c = "c"
			case connGone(k):
				c = "x"
			}
			if s.returned[k] == "" {
				c += "!"
			}
			cls = append(cls, c)
		}
		c2 := ""
		if dialed2 {
			c2 = fmt.Sprintf(" conn2(prefaced=%v,rpc=%v)", prefaced2, sent4)
		}
		res.obs = append(res.obs, fmt.Sprintf("gs=%v stop=%v rpcs=%s%s", gsCalled, stopCalled, strings.Join(cls, ","), c2))
		res.nontriv = (gsCalled || stopCalled) && (sent > 0 || dialed2)

		stopped := make(chan struct{})
		go func() { srv.Stop(); close(stopped) }()
		synctest.Wait()
		select {
		case <-stopped:
		default:
			fail("final-stop-hangs", "Server.Stop did not return at quiescence at the end of the history")
		}
		peer.Close()
		if peer2 != nil {
			peer2.Close()
		} else if conn2 != nil {
			conn2.Close()
		}
		synctest.Wait()
		select {
		case <-served:
		default:
			fail("serve-survives-stop", "Serve has not returned after Stop")
		}
		if verbose {
			res.log = peer.LogString()
		}
		if n := runtime.NumGoroutine(); n > gBase {
			buf := make([]byte, 1<<16)
			buf = buf[:runtime.Stack(buf, true)]
			st := string(buf)
			if len(st) > 3000 {
				st = st[:3000]
			}
			fail("goroutine-leak", "%d goroutines more than before the server was created survive Stop:\n%s", n-gBase, st)
		}
	})
	return res
}

// ---------------------------------------------------------------- crash attribution (see c12)

type c25Crash struct {
	r     *vk.Run
	path  string
	prev  []vk.Violation
	shard int
	n     int
}

func c25NewCrash(r *vk.Run) *c25Crash {
	dir := os.Getenv("VERIF_OUT")
	s, n := r.Shard()
	c := &c25Crash{r: r, shard: s, n: n}
	if dir != "" {
		c.path = fmt.Sprintf("%s/%s.%d.result.json", dir, r.Leg, s)
	}
	return c
}

func (c *c25Crash) pending(mcs c25Cfg, evs []string) {
	if c.path == "" {
		return
	}
	hs := c25HistString(mcs, evs)
	v := vk.Violation{Property: c25P, Key: "worker-died/" + hs,
		Desc:   "the worker process died (panic, fatal error, bubble deadlock) or was killed while running this history: " + hs,
		Replay: c25Replay{MCS: mcs.MCS, Workers: mcs.Workers, Events: evs}}
	out := map[string]any{"leg": c.r.Leg, "shard": c.shard, "nshards": c.n, "tier": c.r.Tier(), "seed": c.r.Seed(),
		"props": map[string]any{}, "violations": append(append([]vk.Violation(nil), c.prev...), v), "engine_errors": []string{}, "wall_s": 0, "complete": false}
	b, _ := json.Marshal(out)
	os.WriteFile(c.path, b, 0o644)
}

// ---------------------------------------------------------------- enumeration

// c25StaticBad returns the index of the first event that is inapplicable
// whatever the server does (saves a bubble), or -1.
func c25StaticBad(events []string, maxArr int, seq []int) int {
	sent := 0
	var gs, stop, closed, dial2, pref2, arr2 bool
	var canc, ret [c25NK + 1]bool
	for i, x := range seq {
		e := events[x]
		switch {
		case e == "dial2":
			if dial2 || gs || stop {
				return i
			}
			dial2 = true
		case e == "preface2":
			if !dial2 || pref2 {
				return i
			}
			pref2 = true
		case e == "arrive2":
			if !pref2 || arr2 {
				return i
			}
			arr2 = true
		case e == "ret4":
			if !arr2 || ret[4] {
				return i
			}
			ret[4] = true
		case e == "arrive":
			if sent >= maxArr || closed {
				return i
			}
			sent++
		case strings.HasPrefix(e, "ret"):
			k := int(e[3] - '0')
			if k > sent || ret[k] {
				return i
			}
			ret[k] = true
		case strings.HasPrefix(e, "cancel"):
			k := int(e[6] - '0')
			if k > sent || canc[k] || closed {
				return i
			}
			canc[k] = true
		case e == "gs":
			if gs {
				return i
			}
			gs = true
		case e == "stop":
			if stop {
				return i
			}
			stop = true
		case e == "close":
			if closed {
				return i
			}
			closed = true
		}
	}
	return -1
}

func TestVerif_C25_ServerStop(t *testing.T) {
	grpclog.SetLoggerV2(grpclog.NewLoggerV2(io.Discard, io.Discard, io.Discard))
	defer debug.SetGCPercent(debug.SetGCPercent(800))
	r := vk.Start(t, "c25_serverstop", "exploration", c25P)
	defer r.Finish()
	r.Rule(c25P, "every sequence of length 1..D over {arrive (next of <=3 RPCs: HEADERS+DATA+END_STREAM; RPC 2 unary, 1 and 3 streaming), ret1..3 (handler k returns OK/NotFound/OK), cancel1..3 (client RST_STREAM), gs (GracefulStop on its own goroutine), stop (Stop on its own goroutine), close (client closes the connection)} in which every event is applicable (handler k running for ret k; RPC k sent and unfinished for cancel k; gs/stop/close once), for MaxConcurrentStreams 1, 2 and unlimited; second family (two connections, MaxConcurrentStreams 1 and unlimited): every applicable sequence of length 1..D2 over {arrive (one RPC on connection 1), ret1, cancel1, gs, stop, close, dial2 (a second connection is accepted by the listener, the client sends nothing yet), preface2 (its client preface+SETTINGS), arrive2 (RPC 4 on it), ret4}, so that gs/stop can fall between dial2 and preface2; one bubble per history on a real grpc.Server, run to quiescence after every event, then all handlers are released and the eventual obligations checked. Non-trivial: the history calls GracefulStop or Stop with at least one RPC sent; counted once per distinct history.")
	r.Assume(c25P, "testing/synctest quiescence detection; the raw client acknowledges SETTINGS and the GOAWAY PING at once, so 'after GracefulStop was called' means after the quiescence that follows the call; handlers are the explorer's (block until released, linger after cancellation)")
	r.Assume(c25P, "when both GracefulStop and Stop have been called the handlers stop lingering after cancellation (Server.stop holds Server.mu across handlersWG.Wait, so the second call blocks on a mutex, which a synctest bubble cannot wait out)")

	if r.ReplayFile() != "" {
		var rp c25Replay
		if err := r.LoadReplay(&rp); err != nil {
			r.EngineError("replay: %v", err)
			return
		}
		rcfg := c25Cfg{rp.MCS, rp.Workers}
		res := c25Run(t, rcfg, c25MaxK, rp.Events, true)
		fmt.Printf("[c25 replay] %s\n  %s\n  abortAt=%d obs=%v\n  server frames: %s\n", c25HistString(rcfg, rp.Events), strings.Join(res.trace, "\n  "), res.abortAt, res.obs, res.log)
		for _, f := range res.fails {
			r.Violation(c25P, f.Key, f.Desc, rp)
		}
		r.Eval(c25P, 1)
		r.NontrivialN(c25P, 2)
		r.Sample(c25P, c25HistString(rcfg, rp.Events))
		return
	}

	crash := c25NewCrash(r)
	var dump *os.File // debugging aid: VERIF_C25_DUMP=<file> lists every evaluated history with its outcome class
	if p := os.Getenv("VERIF_C25_DUMP"); p != "" {
		s, _ := r.Shard()
		dump, _ = os.Create(fmt.Sprintf("%s.%d", p, s))
		defer dump.Close()
	}
	type scenario struct {
		name   string
		events []string
		maxArr int // RPCs on connection 1
		cfgs   []c25Cfg
		depth  int
	}
	scns := []scenario{
		// NumStreamWorkers 0: the default goroutine-per-stream dispatch
		{"one-connection", c25Events, c25MaxK, []c25Cfg{{1, 0}, {2, 0}, {0, 0}}, r.Pick(7, 12)},
		{"two-connections", c25Events2, 1, []c25Cfg{{1, 0}, {0, 0}, {1, 1}}, r.Pick(7, 10)},
		// stream workers: a stream goes to an idle worker or, if none, to a new goroutine
		{"one-connection-stream-workers", c25Events, c25MaxK, []c25Cfg{{1, 1}, {1, 2}, {2, 1}, {2, 2}}, r.Pick(6, 9)},
	}
	var nEval, nNontriv, nStatic, nDyn int64
	capped := false
	for si, sc := range scns {
		r.Set(c25P, sc.name+"_depth_bound", sc.depth)
		r.Set(c25P, sc.name+"_max_alphabet", len(sc.events))
		D, nE, events := sc.depth, len(sc.events), sc.events
		sampled := 0
		for ci, mcs := range sc.cfgs {
			for L := 1; L <= D; L++ {
				seq := make([]int, L)
				// advance the odometer at position p; false when exhausted
				adv := func(p int) bool {
					for i := p + 1; i < L; i++ {
						seq[i] = 0
					}
					for p >= 0 {
						seq[p]++
						if seq[p] < nE {
							return true
						}
						seq[p] = 0
						p--
					}
					return false
				}
				pl := L // shard on the first min(L,3) events
				if pl > 3 {
					pl = 3
				}
				for more := true; more; {
					if !capped && r.OverBudget() {
						capped = true
						r.Cap(c25P, "soft time budget reached before the enumeration finished")
					}
					if capped {
						break
					}
					if b := c25StaticBad(events, sc.maxArr, seq); b >= 0 {
						nStatic++
						more = adv(b)
						continue
					}
					pi := 0
					for i := 0; i < pl; i++ {
						pi = pi*nE + seq[i]
					}
					if !r.Mine(pi*7 + L + ci + 3*si) {
						more = adv(pl - 1)
						continue
					}
					evs := make([]string, L)
					for i, x := range seq {
						evs[i] = events[x]
					}
					crash.pending(mcs, evs)
					res := c25Run(t, mcs, sc.maxArr, evs, false)
					if res.engine != "" {
						r.EngineError("%s: %s", c25HistString(mcs, evs), res.engine)
					}
					for _, f := range res.fails {
						hs := c25HistString(mcs, evs)
						v := vk.Violation{Property: c25P, Key: f.Key, Desc: f.Desc + " | history: " + hs, Replay: c25Replay{MCS: mcs.MCS, Workers: mcs.Workers, Events: evs}}
						dup := false
						for _, p := range crash.prev {
							if p.Key == v.Key {
								dup = true
							}
						}
						if !dup && len(crash.prev) < 20 {
							crash.prev = append(crash.prev, v)
						}
						r.Violation(c25P, v.Key, v.Desc, v.Replay)
					}
					if res.abortAt >= 0 {
						nDyn++
						more = adv(res.abortAt)
						continue
					}
					nEval++
					if dump != nil {
						fmt.Fprintf(dump, "%s | %v\n", c25HistString(mcs, evs), res.obs)
					}
					if res.nontriv {
						nNontriv++
					}
					for _, o := range res.obs {
						r.Outcome(c25P, o)
					}
					if sampled < 2 && res.nontriv && L == D {
						sampled++
						r.Sample(c25P, map[string]any{"history": c25HistString(mcs, evs), "outcome": res.obs})
					}
					more = adv(L - 1)
				}
			}
		}
	}
	r.Eval(c25P, nEval)
	r.NontrivialN(c25P, nNontriv)
	r.AddInt(c25P, "histories_cut_statically", nStatic)
	r.AddInt(c25P, "histories_cut_at_inapplicable_event", nDyn)
}
