//go:build verif

// Package h_c25 hosts the E4 harness of property C25: a real grpc.Server on an
// in-memory listener, a scripted raw HTTP/2 client and explorer-owned handlers,
// one synctest bubble per history of arrivals, completions, cancellations,
// GracefulStop, Stop and connection close.
package h_c25
