//go:build verif

package h_c24

import (
	"context"
	"errors"
	"fmt"
	"google.golang.org/grpc/encoding"
	"io"
	"os"
	"sort"
	"strconv"
	"strings"
	"sync"
	"testing"
	"testing/synctest"
	"time"

	"golang.org/x/net/http2"
	"google.golang.org/grpc"
	"google.golang.org/grpc/balancer"
	"google.golang.org/grpc/codes"
	"google.golang.org/grpc/connectivity"
	"google.golang.org/grpc/internal"
	iresolver "google.golang.org/grpc/internal/resolver"
	"google.golang.org/grpc/internal/verif/vk"
	"google.golang.org/grpc/internal/verif/wire"
	"google.golang.org/grpc/metadata"
	"google.golang.org/grpc/resolver"
	"google.golang.org/grpc/serviceconfig"
	"google.golang.org/grpc/status"
)

const c24ServiceConfigLB = `{"loadBalancingConfig": [{"` + c24LBName + `": {}}]}`

type c24Case struct {
	Source string `json:"source"` // picker | cfgsel | interceptor | creds-dial | creds-call | dialer | wire | client
	Item   string `json:"item"`
	Phase  string `json:"phase,omitempty"` // wire: p0 (no response yet) | p1 (response headers sent) | p2 (headers + one message sent)
	API    string `json:"api"`             // unary | stream
	WFR    bool   `json:"wfr"`
	Policy bool   `json:"policy,omitempty"` // ctxend: the method has a retry policy
}

func (c c24Case) String() string {
	m := "ff"
	if c.WFR {
		m = "wfr"
	}
	ph := ""
	if c.Phase != "" {
		ph = "@" + c.Phase
	}
	if c.Source == "ctxend" {
		m = "nopolicy"
		if c.Policy {
			m = "retrypolicy"
		}
	}
	return fmt.Sprintf("%s/%s%s/%s/%s", c.Source, c.Item, ph, c.API, m)
}

// ---------------------------------------------------------------- error menu (control plane)

// c24OKErr is a non-nil error whose GRPCStatus carries code OK ("code 0 as a status error").
type c24OKErr struct{}

func (c24OKErr) Error() string              { return "scripted error with status code OK" }
func (c24OKErr) GRPCStatus() *status.Status { return status.New(codes.OK, "scripted OK status") }

func c24Menu() []string {
	var m []string
	for c := 0; c <= 16; c++ {
		m = append(m, fmt.Sprintf("status:%d", c))
	}
	m = append(m, "wrapped:3", "wrapped:14", "plain", "nosc", "plain-eof", "plain-unexpected-eof", "plain-ctx-canceled", "plain-ctx-deadline")
	return m
}

func c24MenuErr(item string) error {
	switch {
	case strings.HasPrefix(item, "status:"):
		n, _ := strconv.Atoi(item[7:])
		if n == 0 {
			return c24OKErr{}
		}
		return status.Error(codes.Code(n), "scripted status error")
	case strings.HasPrefix(item, "wrapped:"):
		n, _ := strconv.Atoi(item[8:])
		return fmt.Errorf("scripted wrapper: %w", status.Error(codes.Code(n), "scripted wrapped status error"))
	}
	switch item {
	case "plain":
		return errors.New("scripted plain error")
	case "nosc":
		return balancer.ErrNoSubConnAvailable
	case "plain-eof":
		return io.EOF
	case "plain-unexpected-eof":
		return io.ErrUnexpectedEOF
	case "plain-ctx-canceled":
		return context.Canceled
	case "plain-ctx-deadline":
		return context.DeadlineExceeded
	}
	panic("c24: unknown menu item " + item)
}

// c24MenuCode returns the status code the item carries (ok=false for non-status items).
func c24MenuCode(item string) (codes.Code, bool) {
	for _, p := range []string{"status:", "wrapped:"} {
		if strings.HasPrefix(item, p) {
			n, _ := strconv.Atoi(item[len(p):])
			return codes.Code(n), true
		}
	}
	return 0, false
}

// c24Restricted: the codes gRFC A54 reserves for the data plane (written from the gRFC / property text).
func c24Restricted(c codes.Code) bool {
	switch c {
	case codes.InvalidArgument, codes.NotFound, codes.AlreadyExists, codes.FailedPrecondition, codes.Aborted, codes.OutOfRange, codes.DataLoss:
		return true
	}
	return false
}

// scripted control-plane components

type c24Selector struct {
	err         error
	interceptor any
}

func (s c24Selector) SelectConfig(iresolver.RPCInfo) (*iresolver.RPCConfig, error) {
	if s.interceptor != nil {
		return &iresolver.RPCConfig{Interceptor: s.interceptor}, nil
	}
	return nil, s.err
}

type c24Interceptor struct{ err error }

func (i c24Interceptor) NewStream(ctx context.Context, ri iresolver.RPCInfo, newStream func(ctx context.Context, opts ...grpc.CallOption) (grpc.ClientStream, error), opts ...grpc.CallOption) (grpc.ClientStream, error) {
	return nil, i.err
}
func (c24Interceptor) Close() {}

type c24Creds struct{ err error }

func (c c24Creds) GetRequestMetadata(context.Context, ...string) (map[string]string, error) {
	return nil, c.err
}
func (c24Creds) RequireTransportSecurity() bool { return false }

// ---------------------------------------------------------------- scripted compressors, real echo server

// Two registered pass-through compressors: the client compresses requests with
// c24zc, the real server answers with c24zs (grpc.SetSendCompressor), so a
// failure point "<name>.<op>" pins down the side and direction:
// c24zc.{compress,write,close} = client send, c24zc.{decompress,read} = server
// receive, c24zs.{compress,write,close} = server send, c24zs.{decompress,read} =
// client receive.
type c24Compressor struct{ name string }

var (
	c24ZMu    sync.Mutex
	c24ZFail  string         // "<name>.<op>" that fails in the current bubble ("" = none)
	c24ZCalls map[string]int // "<name>.<op>" -> calls in the current bubble
)

func c24ZHit(name, op string) error {
	c24ZMu.Lock()
	defer c24ZMu.Unlock()
	if c24ZCalls != nil {
		c24ZCalls[name+"."+op]++
	}
	if c24ZFail == name+"."+op {
		return fmt.Errorf("scripted compressor failure in %s.%s", name, op)
	}
	return nil
}

func (c c24Compressor) Name() string { return c.name }
func (c c24Compressor) Compress(w io.Writer) (io.WriteCloser, error) {
	if err := c24ZHit(c.name, "compress"); err != nil {
		return nil, err
	}
	return &c24ZWriter{w: w, name: c.name}, nil
}
func (c c24Compressor) Decompress(r io.Reader) (io.Reader, error) {
	if err := c24ZHit(c.name, "decompress"); err != nil {
		return nil, err
	}
	return &c24ZReader{r: r, name: c.name}, nil
}

type c24ZWriter struct {
	w    io.Writer
	name string
}

func (z *c24ZWriter) Write(p []byte) (int, error) {
	if err := c24ZHit(z.name, "write"); err != nil {
		return 0, err
	}
	return z.w.Write(p)
}
func (z *c24ZWriter) Close() error { return c24ZHit(z.name, "close") }

type c24ZReader struct {
	r     io.Reader
	name  string
	reads int
}

func (z *c24ZReader) Read(p []byte) (int, error) {
	z.reads++
	if z.reads == 1 && len(p) > 3 {
		p = p[:3] // hand out a few bytes first: the failure then comes mid-stream
		return z.r.Read(p)
	}
	if err := c24ZHit(z.name, "read"); err != nil {
		return 0, err
	}
	return z.r.Read(p)
}

func init() {
	encoding.RegisterCompressor(c24Compressor{"c24zc"})
	encoding.RegisterCompressor(c24Compressor{"c24zs"})
	encoding.RegisterCodecV2(c24Codec{}) // the real server needs the codec by content-subtype
}

var c24CompressItems = []string{
	"none",
	"c24zc.compress", "c24zc.write", "c24zc.close", "c24zc.decompress", "c24zc.read",
	"c24zs.compress", "c24zs.write", "c24zs.close", "c24zs.decompress", "c24zs.read",
	"server-marshal-error", "server-unmarshal-error",
}

// c24EchoServer is a real grpc.Server whose handler echoes every message,
// compressing its responses with c24zs.
type c24EchoServer struct {
	srv  *grpc.Server
	lis  *wire.Listener
	mu   sync.Mutex
	errs []string // errors the handler got from ServerStream.RecvMsg/SendMsg (reported, not judged)
}

func c24NewEchoServer(item string) *c24EchoServer {
	e := &c24EchoServer{lis: wire.NewListener()}
	note := func(op string, err error) {
		e.mu.Lock()
		_, isStatus := status.FromError(err)
		e.errs = append(e.errs, fmt.Sprintf("%s: %v (status=%v)", op, err, isStatus))
		e.mu.Unlock()
	}
	e.srv = grpc.NewServer(grpc.UnknownServiceHandler(func(_ any, ss grpc.ServerStream) error {
		if err := grpc.SetSendCompressor(ss.Context(), "c24zs"); err != nil {
			note("SetSendCompressor", err)
		}
		for {
			var m []byte
			var err error
			if item == "server-unmarshal-error" {
				err = ss.RecvMsg(new(int))
			} else {
				err = ss.RecvMsg(&m)
			}
			if err == io.EOF {
				return nil
			}
			if err != nil {
				note("RecvMsg", err)
				return err
			}
			if item == "server-marshal-error" {
				err = ss.SendMsg(42)
			} else {
				err = ss.SendMsg(m)
			}
			if err != nil {
				note("SendMsg", err)
				return err
			}
		}
	}))
	go e.srv.Serve(e.lis)
	return e
}

// ---------------------------------------------------------------- item lists

var c24DialerItems = []string{"err-plain", "err-status-notfound", "err-eof", "err-ctx-deadline", "hang", "close-immediately", "http1-reply", "first-frame-not-settings", "silent-server"}

var c24ClientItems = []string{
	"bad-metadata-key", "bad-metadata-value", "unknown-compressor", "unknown-content-subtype", "marshal-error", "unmarshal-error",
	"send-too-large", "recv-too-large", "send-after-closesend", "cc-closed-before", "cc-closed-mid", "ctx-canceled-before", "ctx-canceled-mid", "ctx-deadline-mid",
	"resolver-error", "bad-service-config",
}

func c24WireItems() []string {
	items := []string{"close", "goaway:0:0", "goaway:sid:0", "goaway:0:1", "goaway:0:11", "goaway-close"}
	for _, c := range []int{0, 1, 2, 3, 4, 5, 6, 7, 8, 9, 10, 11, 12, 13, 255} {
		items = append(items, fmt.Sprintf("rst:%d", c))
	}
	for _, v := range []string{"0", "1", "2", "3", "4", "5", "6", "7", "8", "9", "10", "11", "12", "13", "14", "15", "16", "17", "99", "-1", "abc", "4294967296", "empty"} {
		items = append(items, "trl:grpc-status="+v)
	}
	items = append(items,
		"trl:no-grpc-status", "trl:bad-grpc-message", "trl:bad-details-bin", "trl:details-code-mismatch",
		"hdr:no-status", "hdr:status-404", "hdr:status-abc", "hdr:status-100", "hdr:bad-content-type", "hdr:no-content-type", "hdr:uppercase-name", "hdr:garbage-hpack", "hdr:second-headers", "hdr:unknown-encoding",
		"data:compressed-no-encoding", "data:huge-length-prefix", "data:truncated-endstream", "data:endstream-no-trailers", "data:flow-violation", "data:extra-message", "data:on-stream-0",
		"conn:bad-settings", "conn:window-update-zero", "conn:window-update-overflow", "conn:unknown-frame", "conn:push-promise", "conn:rst-stream-0", "conn:ping-bad-len",
	)
	return items
}

func c24Cases(thorough bool) []c24Case {
	var out []c24Case
	apis := []string{"unary", "stream"}
	for _, src := range []string{"picker", "cfgsel", "interceptor", "creds-dial", "creds-call"} {
		for _, item := range c24Menu() {
			for _, api := range apis {
				for _, wfr := range []bool{false, true} {
					out = append(out, c24Case{Source: src, Item: item, API: api, WFR: wfr})
				}
			}
		}
	}
	for _, item := range c24DialerItems {
		for _, api := range apis {
			for _, wfr := range []bool{false, true} {
				out = append(out, c24Case{Source: "dialer", Item: item, API: api, WFR: wfr})
			}
		}
	}
	for _, item := range c24WireItems() {
		for _, ph := range []string{"p0", "p1", "p2"} {
			for _, api := range apis {
				wfrs := []bool{false}
				if thorough {
					wfrs = []bool{false, true}
				}
				for _, wfr := range wfrs {
					out = append(out, c24Case{Source: "wire", Item: item, Phase: ph, API: api, WFR: wfr})
				}
			}
		}
	}
	out = append(out, c24CtxCases()...)
	for _, item := range c24CompressItems {
		for _, api := range apis {
			out = append(out, c24Case{Source: "compress", Item: item, API: api})
		}
	}
	for _, item := range c24ClientItems {
		for _, api := range apis {
			if item == "send-after-closesend" && api == "unary" {
				continue
			}
			out = append(out, c24Case{Source: "client", Item: item, API: api})
		}
	}
	return out
}

// ---------------------------------------------------------------- run

type c24Fail struct{ Class, Desc string }

type c24Result struct {
	Fails   []c24Fail
	Engine  string
	Outcome string
	Trace   string
	NErrs   int
}

func c24Run(t *testing.T, c c24Case) (res c24Result) {
	problem := c24Bubble(t, func(t *testing.T) {
		if c.Source == "ctxend" {
			c24CtxRunInBubble(t, c, &res)
		} else {
			c24RunInBubble(t, c, &res)
		}
	})
	if problem != "" {
		if res.Engine == "" && len(res.Fails) == 0 {
			res.Engine = problem
		} else {
			res.Trace += " | " + problem
		}
	}
	return res
}

// c24Start runs the RPC on its own goroutine: unary = Invoke; stream =
// NewStream, SendMsg x2, CloseSend, [SendMsg again], RecvMsg until error.
func c24Start(w *c24World, ctx context.Context, api string, req any, mkReply func() any, sendAfterClose bool, opts []grpc.CallOption) *c24RPC {
	r := &c24RPC{w: w}
	go func() {
		defer func() {
			r.mu.Lock()
			r.fin = true
			r.mu.Unlock()
		}()
		if api == "unary" {
			r.op("Invoke", func() error { return w.cc.Invoke(ctx, "/s/m", req, mkReply(), opts...) })
			return
		}
		var cs grpc.ClientStream
		if r.op("NewStream", func() error {
			var e error
			cs, e = w.cc.NewStream(ctx, c24BidiDesc, "/s/m", opts...)
			return e
		}) != nil {
			return
		}
		for i := 0; i < 2; i++ {
			if err := r.op("SendMsg", func() error { return cs.SendMsg(req) }); err != nil {
				break
			}
		}
		r.op("CloseSend", cs.CloseSend)
		if sendAfterClose {
			r.op("SendMsg", func() error { return cs.SendMsg(req) })
		}
		for i := 0; i < 4; i++ {
			if err := r.op("RecvMsg", func() error { return cs.RecvMsg(mkReply()) }); err != nil {
				return
			}
		}
	}()
	return r
}

func c24RunInBubble(t *testing.T, c c24Case, res *c24Result) {
	fail := func(class, format string, a ...any) {
		res.Fails = append(res.Fails, c24Fail{class, fmt.Sprintf(format, a...)})
	}
	var menuErr error
	switch c.Source {
	case "picker", "cfgsel", "interceptor", "creds-dial", "creds-call":
		menuErr = c24MenuErr(c.Item)
	}

	// ---- world set-up per source ----
	sc := c24ServiceConfigLB
	var dialOpts []grpc.DialOption
	var callOpts []grpc.CallOption
	useCodec := true
	var req any = []byte("request")
	mkReply := func() any { return new([]byte) }
	plan := func(n int) c24ConnPlan {
		return c24ConnPlan{Settings: []http2.Setting{{ID: http2.SettingMaxConcurrentStreams, Val: 100}}}
	}
	parse := internal.ParseServiceConfig.(func(string) *serviceconfig.ParseResult)
	var echo *c24EchoServer
	if c.Source == "compress" {
		c24ZMu.Lock()
		c24ZFail, c24ZCalls = "", map[string]int{}
		if strings.HasPrefix(c.Item, "c24z") {
			c24ZFail = c.Item
		}
		c24ZMu.Unlock()
		defer func() {
			c24ZMu.Lock()
			c24ZFail, c24ZCalls = "", nil
			c24ZMu.Unlock()
		}()
		echo = c24NewEchoServer(c.Item)
		defer func() {
			echo.srv.Stop()
			synctest.Wait()
		}()
		plan = func(int) c24ConnPlan { return c24ConnPlan{Listener: echo.lis} }
		callOpts = append(callOpts, grpc.UseCompressor("c24zc"))
	}
	switch c.Source {
	case "cfgsel":
		c24StateHook = func(s resolver.State) resolver.State {
			s.ServiceConfig = parse(c24ServiceConfigLB)
			return iresolver.SetConfigSelector(s, c24Selector{err: menuErr})
		}
	case "interceptor":
		c24StateHook = func(s resolver.State) resolver.State {
			s.ServiceConfig = parse(c24ServiceConfigLB)
			return iresolver.SetConfigSelector(s, c24Selector{interceptor: c24Interceptor{err: menuErr}})
		}
	case "creds-dial":
		dialOpts = append(dialOpts, grpc.WithPerRPCCredentials(c24Creds{err: menuErr}))
	case "creds-call":
		callOpts = append(callOpts, grpc.PerRPCCredentials(c24Creds{err: menuErr}))
	case "dialer":
		sc = `{}` // real pick_first
		plan = func(n int) c24ConnPlan {
			p := c24ConnPlan{}
			switch c.Item {
			case "err-plain":
				p.Fail = errors.New("scripted dial error")
			case "err-status-notfound":
				p.Fail = status.Error(codes.NotFound, "scripted dial status error")
			case "err-eof":
				p.Fail = io.EOF
			case "err-ctx-deadline":
				p.Fail = context.DeadlineExceeded
			case "hang":
				p.Hang = true
			case "close-immediately":
				p.Custom = func(s *wire.Conn) { s.Close() }
			case "http1-reply":
				p.Custom = func(s *wire.Conn) { s.Write([]byte("HTTP/1.1 400 Bad Request\r\nContent-Length: 0\r\n\r\n")) }
			case "first-frame-not-settings":
				// the server preface must start with SETTINGS: the handshake fails, the
				// connection never becomes READY (so the reconnect backoff applies)
				p.Custom = func(s *wire.Conn) {
					fr := http2.NewFramer(s, s)
					fr.WritePing(false, [8]byte{1, 2, 3, 4, 5, 6, 7, 8})
				}
			case "silent-server":
				p.Custom = func(s *wire.Conn) {} // accepts, never sends its preface
			default:
				panic("c24: dialer item " + c.Item)
			}
			return p
		}
	case "client":
		switch c.Item {
		case "unknown-content-subtype":
			useCodec = false
			callOpts = append(callOpts, grpc.CallContentSubtype("c24-no-such-codec"))
		case "unknown-compressor":
			callOpts = append(callOpts, grpc.UseCompressor("c24-no-such-compressor"))
		case "marshal-error":
			req = 42
		case "unmarshal-error":
			mkReply = func() any { return new(int) }
		case "send-too-large":
			callOpts = append(callOpts, grpc.MaxCallSendMsgSize(1))
		case "recv-too-large":
			callOpts = append(callOpts, grpc.MaxCallRecvMsgSize(1))
		case "resolver-error":
			sc = `{}`
		case "bad-service-config":
			c24StateHook = func(s resolver.State) resolver.State {
				s.ServiceConfig = parse(`{"loadBalancingConfig": "this is not a list"}`)
				return s
			}
		}
	}
	if useCodec {
		callOpts = append([]grpc.CallOption{grpc.ForceCodecV2(c24Codec{})}, callOpts...)
	}
	if c.WFR {
		callOpts = append(callOpts, grpc.WaitForReady(true))
	}
	withAddrs := !(c.Source == "client" && c.Item == "resolver-error")
	w := c24NewWorld(t, sc, withAddrs, plan, dialOpts...)
	defer w.close()
	if w.cc == nil {
		res.Engine = w.engineErr()
		return
	}
	w.connect()
	usesLB := c.Source != "dialer" && !(c.Source == "client" && (c.Item == "resolver-error" || c.Item == "bad-service-config"))
	if usesLB {
		lb := w.getLB()
		if lb == nil || lb.state0() != connectivity.Ready {
			res.Engine = "set-up: LB/SubConn not ready: " + w.engineErr()
			return
		}
		switch {
		case c.Source == "picker" && c.Item == "nosc":
			w.publish(c24KNoSC, nil)
		case c.Source == "picker":
			kind := c24KPlain
			if _, ok := status.FromError(menuErr); ok {
				kind = c24KStatus
			}
			w.publish(kind, menuErr)
		default:
			w.publish(c24KReady, nil)
		}
		synctest.Wait()
	}
	if c.Source == "client" && c.Item == "resolver-error" {
		w.res.CC().ReportError(errors.New("scripted resolver error"))
		synctest.Wait()
	}

	// ---- the call: every RPC has a 1 s deadline so that blocking paths end too ----
	ctx, cancel := w.ctx(time.Second)
	if c.Source == "client" {
		switch c.Item {
		case "bad-metadata-key":
			ctx = metadata.NewOutgoingContext(ctx, metadata.MD{"bad key\x00": []string{"v"}})
		case "bad-metadata-value":
			ctx = metadata.AppendToOutgoingContext(ctx, "k", "bad\x01value")
		case "ctx-canceled-before":
			cancel()
		case "cc-closed-before":
			w.cc.Close()
		}
	}
	rpc := c24Start(w, ctx, c.API, req, mkReply, c.Source == "client" && c.Item == "send-after-closesend", callOpts)
	synctest.Wait()

	// ---- server side / environment script ----
	serveAll := func(f func(s c24Stream)) int {
		n := 0
		for _, s := range w.newStreams() {
			f(s)
			n++
		}
		synctest.Wait()
		return n
	}
	wireCode, wireNumeric := 0, false // grpc-status number put on the wire by the script (propagation allowed)
	switch c.Source {
	case "wire":
		ss := w.newStreams()
		if len(ss) != 1 {
			res.Engine = fmt.Sprintf("script drift: %d request streams on the wire; %s", len(ss), rpc)
			return
		}
		s := ss[0]
		if c.Phase == "p1" || c.Phase == "p2" {
			s.Peer.WriteHeaders(s.ID, c24RespHdr, false)
			synctest.Wait()
		}
		if c.Phase == "p2" {
			s.Peer.WriteData(s.ID, false, wire.GrpcMsg(false, []byte("one")))
			synctest.Wait()
		}
		wireCode, wireNumeric = c24Fault(s, c.Item, c.Phase)
		synctest.Wait()
	case "client":
		switch c.Item {
		case "cc-closed-mid":
			serveAll(func(s c24Stream) { s.Peer.WriteHeaders(s.ID, c24RespHdr, false) })
			w.cc.Close()
		case "ctx-canceled-mid":
			serveAll(func(s c24Stream) { s.Peer.WriteHeaders(s.ID, c24RespHdr, false) })
			cancel()
		case "ctx-deadline-mid":
			serveAll(func(s c24Stream) { s.Peer.WriteHeaders(s.ID, c24RespHdr, false) })
		default:
			serveAll(func(s c24Stream) { s.respondOK() })
		}
	case "picker":
		if c.Item == "nosc" {
			time.Sleep(100 * time.Millisecond)
			w.publish(c24KReady, nil)
			synctest.Wait()
		}
		serveAll(func(s c24Stream) { s.respondOK() })
	default:
		serveAll(func(s c24Stream) { s.respondOK() })
	}
	synctest.Wait()
	time.Sleep(2 * time.Second)
	synctest.Wait()
	serveAll(func(s c24Stream) { s.respondOK() }) // streams created late (after reconnects) are answered too
	if !rpc.finished() {
		res.Engine = "RPC still running 2 s after its 1 s deadline: " + rpc.String()
		return
	}

	// ---- oracle ----
	ops := rpc.snapshot()
	var finalErr error
	for _, o := range ops {
		if o.Err == nil {
			continue
		}
		if o.Err == io.EOF && (o.Name == "SendMsg" || o.Name == "RecvMsg") {
			continue
		}
		res.NErrs++
		if finalErr == nil {
			finalErr = o.Err
		}
		st, ok := status.FromError(o.Err)
		switch {
		case !ok && o.Err == io.EOF && (o.Name == "Invoke" || o.Name == "NewStream"):
			fail("not-a-status-eof", "%s returned the bare io.EOF", o.Name)
		case !ok:
			fail("not-a-status", "%s returned %T %q, which carries no gRPC status (status.FromError ok=false)", o.Name, o.Err, o.Err)
		case st.Code() == codes.OK:
			res.Trace += fmt.Sprintf("[%s returned a non-nil error with code OK] ", o.Name)
		case st.Code() > codes.Unauthenticated && wireNumeric && uint32(st.Code()) == uint32(int32(wireCode)):
			// the peer's own (undefined) grpc-status number, propagated as the gRPC spec allows
			res.Trace += fmt.Sprintf("[%s propagated the peer's undefined grpc-status %d as %d] ", o.Name, wireCode, uint32(st.Code()))
		case st.Code() > codes.Unauthenticated:
			fail("illegal-code", "%s returned status code %d (%q), not one of the 17 defined codes and not a grpc-status number sent by the peer", o.Name, st.Code(), o.Err)
		}
	}
	// gRFC A54: restricted control-plane codes become INTERNAL, the others are preserved.
	switch c.Source {
	case "picker", "cfgsel", "creds-dial", "creds-call":
		if mc, isStatus := c24MenuCode(c.Item); isStatus && mc != codes.OK {
			got := status.Code(finalErr)
			switch {
			case finalErr == nil:
				fail("control-plane-error-lost", "%s returned the status error %v but the RPC succeeded", c.Source, mc)
			case c24Restricted(mc) && got != codes.Internal:
				fail("a54-not-internal", "%s returned a status error with the restricted code %v; the RPC ended with %v (%q), gRFC A54 requires INTERNAL", c.Source, mc, got, finalErr)
			case !c24Restricted(mc) && got != mc:
				fail("a54-code-not-preserved", "%s returned a status error with the permitted code %v; the RPC ended with %v (%q)", c.Source, mc, got, finalErr)
			}
		}
	}
	fc := "OK"
	if finalErr != nil {
		if st, ok := status.FromError(finalErr); ok {
			fc = st.Code().String()
			if st.Code() == codes.OK {
				fc = "OK-code-error"
			}
		} else {
			fc = "non-status"
		}
	}
	res.Outcome = c.Source + ": " + fc
	if c.Source == "compress" {
		c24ZMu.Lock()
		var calls []string
		for k, n := range c24ZCalls {
			calls = append(calls, fmt.Sprintf("%s=%d", k, n))
		}
		c24ZMu.Unlock()
		sort.Strings(calls)
		echo.mu.Lock()
		herrs := strings.Join(echo.errs, "; ")
		echo.mu.Unlock()
		res.Trace += fmt.Sprintf("[compressor calls: %s] [server handler errors: %s] ", strings.Join(calls, " "), herrs)
		switch {
		case c.Item == "none" && (finalErr != nil || len(calls) < 8):
			res.Engine = fmt.Sprintf("script drift: compress/none: err=%v, compressor calls %v: both compressors must have been used in both directions; %s", finalErr, calls, rpc)
		case c.Item != "none" && finalErr == nil:
			res.Engine = fmt.Sprintf("script drift: %s: the scripted failure did not fail the RPC (calls %v); %s", c.Item, calls, rpc)
		}
	}
	res.Trace += rpc.String()
	if finalErr != nil {
		res.Trace += fmt.Sprintf(" | first error: %q", finalErr)
	}
	if e := w.engineErr(); e != "" && res.Engine == "" {
		res.Engine = e
	}
}

// c24Fault injects one transport fault on the request stream; it returns the
// grpc-status number it put on the wire (ok=false if none / not numeric).
func c24Fault(s c24Stream, item, phase string) (int, bool) {
	p := s.Peer
	id := s.ID
	hdrs := func(extra ...[2]string) [][2]string {
		// at p0 the HEADERS frame is the response's first one and needs the pseudo/content-type part
		var h [][2]string
		if phase == "p0" {
			h = append(h, c24RespHdr...)
		}
		return append(h, extra...)
	}
	switch {
	case item == "close":
		p.Close()
	case item == "goaway-close":
		p.WriteGoAway(0, http2.ErrCodeNo, nil)
		p.Close()
	case strings.HasPrefix(item, "goaway:"):
		f := strings.Split(item, ":")
		last := uint32(0)
		if f[1] == "sid" {
			last = id
		}
		code, _ := strconv.Atoi(f[2])
		var dbg []byte
		if code == 11 {
			dbg = []byte("too_many_pings")
		}
		p.WriteGoAway(last, http2.ErrCode(code), dbg)
	case strings.HasPrefix(item, "rst:"):
		code, _ := strconv.Atoi(item[4:])
		p.WriteRST(id, http2.ErrCode(code))
	case strings.HasPrefix(item, "trl:grpc-status="):
		v := item[len("trl:grpc-status="):]
		if v == "empty" {
			v = ""
		}
		p.WriteHeaders(id, hdrs([2]string{"grpc-status", v}, [2]string{"grpc-message", "scripted"}), true)
		if n, err := strconv.ParseInt(v, 10, 32); err == nil {
			return int(n), true
		}
	case item == "trl:no-grpc-status":
		p.WriteHeaders(id, hdrs([2]string{"x-foo", "bar"}), true)
	case item == "trl:bad-grpc-message":
		p.WriteHeaders(id, hdrs([2]string{"grpc-status", "13"}, [2]string{"grpc-message", "bad%zzescape%"}), true)
		return 13, true
	case item == "trl:bad-details-bin":
		p.WriteHeaders(id, hdrs([2]string{"grpc-status", "13"}, [2]string{"grpc-status-details-bin", "!!!not-base64!!!"}), true)
		return 13, true
	case item == "trl:details-code-mismatch":
		// a valid google.rpc.Status proto (code=5, message="x") whose code differs from grpc-status
		p.WriteHeaders(id, hdrs([2]string{"grpc-status", "13"}, [2]string{"grpc-status-details-bin", "CAUSAXg"}), true)
		return 13, true
	case item == "hdr:no-status":
		p.WriteHeaders(id, [][2]string{{"content-type", "application/grpc"}}, false)
	case item == "hdr:status-404":
		p.WriteHeaders(id, [][2]string{{":status", "404"}, {"content-type", "text/html"}}, false)
	case item == "hdr:status-abc":
		p.WriteHeaders(id, [][2]string{{":status", "abc"}, {"content-type", "application/grpc"}}, false)
	case item == "hdr:status-100":
		p.WriteHeaders(id, [][2]string{{":status", "100"}}, false)
	case item == "hdr:bad-content-type":
		p.WriteHeaders(id, [][2]string{{":status", "200"}, {"content-type", "text/html"}}, false)
	case item == "hdr:no-content-type":
		p.WriteHeaders(id, [][2]string{{":status", "200"}}, false)
	case item == "hdr:uppercase-name":
		p.WriteHeaders(id, hdrs([2]string{"Bad-Header", "x"}), false)
	case item == "hdr:garbage-hpack":
		p.W(func(fr *http2.Framer) error {
			return fr.WriteHeaders(http2.HeadersFrameParam{StreamID: id, BlockFragment: []byte{0xff, 0xff, 0xff, 0xff, 0xff, 0xff}, EndHeaders: true})
		})
	case item == "hdr:second-headers":
		p.WriteHeaders(id, c24RespHdr, false)
	case item == "hdr:unknown-encoding":
		p.WriteHeaders(id, hdrs([2]string{"grpc-encoding", "c24-unknown"}), false)
		p.WriteData(id, false, wire.GrpcMsg(true, []byte("zzz")))
	case item == "data:compressed-no-encoding":
		p.WriteData(id, false, wire.GrpcMsg(true, []byte("zzz")))
	case item == "data:huge-length-prefix":
		p.WriteData(id, false, []byte{0, 0x7f, 0xff, 0xff, 0xff, 1, 2, 3})
	case item == "data:truncated-endstream":
		p.WriteData(id, true, []byte{0, 0, 0, 0, 10, 1, 2, 3})
	case item == "data:endstream-no-trailers":
		p.WriteData(id, true, nil)
	case item == "data:flow-violation":
		blk := make([]byte, 16384)
		for i := 0; i < 6; i++ {
			p.WriteData(id, false, blk)
		}
	case item == "data:extra-message":
		p.WriteData(id, false, wire.GrpcMsg(false, []byte("extra")))
		p.WriteHeaders(id, [][2]string{{"grpc-status", "0"}}, true)
	case item == "data:on-stream-0":
		p.WriteData(0, false, []byte("x"))
	case item == "conn:bad-settings":
		p.WriteSettings(http2.Setting{ID: http2.SettingInitialWindowSize, Val: 1 << 31})
	case item == "conn:window-update-zero":
		p.WriteWindowUpdate(id, 0)
	case item == "conn:window-update-overflow":
		p.WriteWindowUpdate(0, 1<<31-1)
		p.WriteWindowUpdate(0, 1<<31-1)
	case item == "conn:unknown-frame":
		p.WriteRaw([]byte{0, 0, 1, 0xee, 0, 0, 0, 0, byte(id), 7})
	case item == "conn:push-promise":
		p.W(func(fr *http2.Framer) error {
			return fr.WritePushPromise(http2.PushPromiseParam{StreamID: id, PromiseID: 2, BlockFragment: p.Encode([][2]string{{":method", "GET"}}), EndHeaders: true})
		})
	case item == "conn:rst-stream-0":
		p.WriteRST(0, http2.ErrCodeCancel)
	case item == "conn:ping-bad-len":
		p.WriteRaw([]byte{0, 0, 3, 6, 0, 0, 0, 0, 0, 1, 2, 3})
	default:
		panic("c24: unknown wire item " + item)
	}
	return 0, false
}

// c24KeyEOF is the single canonical key for "Invoke/NewStream return a bare
// io.EOF" (toRPCErr lets io.EOF through; reachable when a config selector or
// its interceptor fails with io.EOF).
const c24KeyEOF = "not-a-status/io.EOF-from-config-selector-returned-by-Invoke-or-NewStream"

// ---------------------------------------------------------------- test

func TestVerif_C24_Errors(t *testing.T) {
	const P = "C24"
	r := vk.Start(t, "c24_errors", "fault_enumeration", P)
	defer r.Finish()
	r.Rule(P, fmt.Sprintf("one synctest bubble per case on a real ClientConn; cases = error source x item x {Invoke, NewStream/SendMsg x2/CloseSend/RecvMsg..} x {fail-fast, wait-for-ready}: "+
		"control-plane sources {picker, config selector, config-selector interceptor, dial-level per-RPC creds, call-level per-RPC creds} x menu of %d errors (status codes 0..16, wrapped status 3/14, plain error, ErrNoSubConnAvailable [picker: followed by a good picker], io.EOF, io.ErrUnexpectedEOF, context.Canceled, context.DeadlineExceeded); "+
		"%d dialer faults on real pick_first; %d raw-server faults (close, 15 RST_STREAM codes, GOAWAY variants, trailers with 23 grpc-status values, malformed headers/trailers/DATA, connection-level protocol violations) at 3 RPC phases (before any response / after response headers / after one response message), depth 1; %d 'context ends' cases: the RPC's deadline passes (1 s) or the application cancels (+500 ms) while the RPC is blocked at each of %d lifecycle points (no resolver result, no picker, ErrNoSubConnAvailable / non-READY / plain-error picks, per-RPC credentials blocked on ctx at call and dial level, stream quota, flow control, waiting for headers, waiting for a message, transparent-retry re-pick, retry back-off, server push-back wait, replay of buffered ops with NewStream waiting for quota / pick blocked) x {Invoke; NewStream+SendMsg x2+CloseSend+RecvMsg; NewStream+SendMsg+CloseSend+Header+RecvMsg; each streaming variant followed by one more Header, RecvMsg, SendMsg on the finished stream} x method {without, with} retry policy; %d client-side error sources; %d codec/compressor cases against a real echo server (registered pass-through compressors failing in Compress/Write/Close/Decompress/Read on client send, server receive, server send, client receive; server-side Marshal/Unmarshal failures). "+
		"Every error returned by every API call is checked. A case is non-trivial when at least one non-nil, non-EOF error was returned to the application (distinct by case)",
		len(c24Menu()), len(c24DialerItems), len(c24WireItems()), len(c24CtxCases()), len(c24CtxPoints), len(c24ClientItems), len(c24CompressItems)))
	r.Assume(P, "legal code = status.FromError ok and code in the 17 defined codes, or the very grpc-status number the peer sent (the gRPC spec allows propagating unknown codes); a non-nil error whose GRPCStatus says OK (only constructible by a custom error type, menu item status:0) is tallied as an outcome, not judged")
	r.Assume(P, "the gRFC A54 oracle (7 restricted codes => INTERNAL, other codes preserved) is applied to picker, config-selector and per-RPC-credentials status errors, including status errors wrapped with %w; interceptor/dialer/transport errors are only required to be statuses")
	r.Assume(P, "testing/synctest quiescence; every RPC carries a 1 s deadline so that blocking (wait-for-ready) paths terminate; depth-1 faults only (one fault per history)")

	if r.ReplayFile() != "" {
		var c c24Case
		if err := r.LoadReplay(&c); err != nil {
			r.EngineError("replay: %v", err)
			return
		}
		c24Evaluate(r, c)
		return
	}
	c24StartWatchdog(r)
	cases := c24Cases(r.Thorough())
	if sh, _ := r.Shard(); sh == 0 {
		r.Set(P, "cases_total", len(cases))
	}
	for i, c := range cases {
		if !r.Mine(i) {
			continue
		}
		if r.OverBudget() {
			r.Cap(P, "time budget")
			break
		}
		c24WatchCase(c.String(), c)
		c24Evaluate(r, c)
	}
	c24WatchCase("", nil)
}

func c24Evaluate(r *vk.Run, c c24Case) {
	const P = "C24"
	t0 := time.Now()
	res := c24Run(r.T, c)
	if d := time.Since(t0); d > 2*time.Second {
		fmt.Printf("[c24] slow case %s: %v real\n", c, d)
		r.AddInt(P, "cases_over_2s_real", 1)
	}
	r.Eval(P, 1)
	for _, f := range res.Fails {
		key := f.Class + ": " + c.String()
		desc := f.Desc
		if f.Class == "not-a-status-eof" {
			// one canonical key: same root cause for every source/API/mode
			key = c24KeyEOF
			desc = "a config selector (internal/resolver.ConfigSelector.SelectConfig) or its client interceptor returns the plain error io.EOF: newClientStream passes it through toRPCErr, which returns io.EOF unchanged, so cc.Invoke / cc.NewStream return the bare io.EOF (status.FromError ok=false) instead of a status error. First history: " + c.String() + " | " + f.Desc
		}
		r.Violation(P, key, desc+" | trace: "+res.Trace, c)
	}
	if res.Engine != "" {
		if len(res.Fails) == 0 {
			r.EngineError("%s: %s", c, res.Engine)
		}
		return
	}
	if res.NErrs > 0 {
		r.Nontrivial(P, c.String())
	}
	r.Outcome(P, res.Outcome)
	r.AddInt(P, "errors_checked", int64(res.NErrs))
	switch c.String() {
	case "ctxend/backoff@deadline/unary/retrypolicy", "ctxend/replay-quota@cancel/stream-header/retrypolicy", "ctxend/creds-call-raw@cancel/stream/nopolicy":
		r.Sample(P, map[string]any{"case": c, "name": c.String(), "outcome": res.Outcome, "trace": res.Trace})
	case "compress/c24zc.close/unary/ff", "compress/c24zs.read/stream/ff", "picker/status:3/unary/ff", "cfgsel/status:9/stream/wfr", "creds-call/plain/unary/ff", "wire/rst:7@p0/unary/ff", "wire/trl:grpc-status=99@p1/stream/ff", "dialer/http1-reply/unary/ff":
		r.Sample(P, map[string]any{"case": c, "name": c.String(), "outcome": res.Outcome, "trace": res.Trace})
	}
}

// c24Watch turns a history that cannot reach quiescence (a goroutine parked on
// a non-durable primitive such as a mutex held across a wait, or a zero-time
// livelock) into a verdict instead of a worker killed by the driver's timeout:
// a goroutine OUTSIDE the bubbles (real clock) watches the current case.
type c24WatchState struct {
	mu    sync.Mutex
	name  string
	c     any
	since time.Time
}

var c24Watched c24WatchState

const c24HangLimit = 150 * time.Second // real time; a history normally takes milliseconds

func c24WatchCase(name string, c any) {
	c24Watched.mu.Lock()
	c24Watched.name, c24Watched.c, c24Watched.since = name, c, time.Now()
	c24Watched.mu.Unlock()
}

func c24StartWatchdog(r *vk.Run) {
	go func() {
		for {
			time.Sleep(time.Second)
			c24Watched.mu.Lock()
			name, c, since := c24Watched.name, c24Watched.c, c24Watched.since
			c24Watched.mu.Unlock()
			if name != "" && time.Since(since) > c24HangLimit {
				r.Violation("C24", "hang: "+name, fmt.Sprintf("the history did not reach quiescence within %v of real time: some goroutine is neither runnable-to-completion nor durably blocked (e.g. parked on a mutex that is held across a timer wait), so virtual time cannot advance and the call never ends", c24HangLimit), c)
				os.Exit(3)
			}
		}
	}()
}
