//go:build verif

package h_c24

// Source "ctxend": the RPC's context ends (deadline passes / application
// cancels) while the RPC is blocked at each blocking point of its lifecycle,
// for each API call that can then return the error.

import (
	"context"
	"fmt"
	"io"
	"strings"
	"testing"
	"testing/synctest"
	"time"

	"golang.org/x/net/http2"
	"google.golang.org/grpc"
	"google.golang.org/grpc/codes"
	"google.golang.org/grpc/connectivity"
	"google.golang.org/grpc/metadata"
	"google.golang.org/grpc/status"
)

// LB policy + for service "s" a retry policy with a long back-off (8..12 s with
// jitter); service "n" has no retry policy.
const c24ServiceConfigRetry = `{"loadBalancingConfig": [{"` + c24LBName + `": {}}],
 "methodConfig": [{"name": [{"service": "s"}],
   "retryPolicy": {"maxAttempts": 3, "initialBackoff": "10s", "maxBackoff": "10s", "backoffMultiplier": 1, "retryableStatusCodes": ["UNAVAILABLE"]}}]}`

// blocking points; the ones in c24CtxNeedPolicy exist only with a retry policy
var c24CtxPoints = []string{
	"noresolve",      // resolver silent: before the first pick
	"nopicker",       // no picker published
	"pick-nosc",      // picker: ErrNoSubConnAvailable
	"pick-nonready",  // picker: SubConn not READY
	"pick-plainerr",  // picker: plain error, RPC is wait-for-ready
	"creds-call-raw", // call-level per-RPC creds block on ctx and return ctx.Err()
	"creds-dial-raw", // dial-level per-RPC creds, same
	"creds-call-st",  // call-level per-RPC creds block on ctx and return status.FromContextError
	"quota",          // MAX_CONCURRENT_STREAMS=0
	"flowctl",        // zero flow-control window, 100 KB messages
	"recv-headers",   // request sent, server silent
	"recv-message",   // response headers received, no message
	"tretry-pick",    // transparent retry (REFUSED_STREAM) whose pick blocks (picker now says ErrNoSubConnAvailable)
	"backoff",        // retry back-off sleep after trailers-only UNAVAILABLE
	"pushback",       // server push-back wait (grpc-retry-pushback-ms: 8000)
	"replay-quota",   // retry attempt replaying buffered ops: its NewStream waits for stream quota
	"replay-pick",    // retry attempt replaying buffered ops: its pick blocks
}

func c24CtxNeedPolicy(pt string) bool {
	switch pt {
	case "backoff", "pushback", "replay-quota", "replay-pick":
		return true
	}
	return false
}

func c24CtxCases() []c24Case {
	var out []c24Case
	for _, pt := range c24CtxPoints {
		for _, ending := range []string{"deadline", "cancel"} {
			for _, api := range []string{"unary", "stream", "stream-header"} {
				for _, policy := range []bool{false, true} {
					if c24CtxNeedPolicy(pt) && !policy {
						continue
					}
					out = append(out, c24Case{Source: "ctxend", Item: pt, Phase: ending, API: api, Policy: policy})
				}
			}
		}
	}
	return out
}

// c24BlockingCreds block until the RPC's context ends, like credentials that
// fetch a token honouring ctx.
type c24BlockingCreds struct{ asStatus bool }

func (c c24BlockingCreds) GetRequestMetadata(ctx context.Context, _ ...string) (map[string]string, error) {
	<-ctx.Done()
	if c.asStatus {
		return nil, status.FromContextError(ctx.Err()).Err()
	}
	return nil, ctx.Err()
}
func (c24BlockingCreds) RequireTransportSecurity() bool { return false }

// c24CtxStart: unary = Invoke; stream = NewStream, SendMsg x2, CloseSend,
// RecvMsg until error; stream-header = NewStream, SendMsg, CloseSend, Header,
// RecvMsg until error. After the terminal error the streaming variants call
// Header, RecvMsg and SendMsg once more: a finished stream must keep answering
// with statuses.
func c24CtxStart(w *c24World, ctx context.Context, api, method string, req []byte, opts []grpc.CallOption) *c24RPC {
	r := &c24RPC{w: w}
	go func() {
		defer func() {
			r.mu.Lock()
			r.fin = true
			r.mu.Unlock()
		}()
		if api == "unary" {
			var reply []byte
			r.op("Invoke", func() error { return w.cc.Invoke(ctx, method, req, &reply, opts...) })
			return
		}
		var cs grpc.ClientStream
		if r.op("NewStream", func() error {
			var e error
			cs, e = w.cc.NewStream(ctx, c24BidiDesc, method, opts...)
			return e
		}) != nil {
			return
		}
		header := func() {
			r.op("Header", func() error {
				var md metadata.MD
				md, err := cs.Header()
				_ = md
				return err
			})
		}
		nsend := 2
		if api == "stream-header" {
			nsend = 1
		}
		for i := 0; i < nsend; i++ {
			if err := r.op("SendMsg", func() error { return cs.SendMsg(req) }); err != nil {
				break
			}
		}
		r.op("CloseSend", cs.CloseSend)
		if api == "stream-header" {
			header()
		}
		for i := 0; i < 4; i++ {
			var m []byte
			if err := r.op("RecvMsg", func() error { return cs.RecvMsg(&m) }); err != nil {
				break
			}
		}
		header()
		var m []byte
		r.op("RecvMsg", func() error { return cs.RecvMsg(&m) })
		r.op("SendMsg", func() error { return cs.SendMsg(req) })
	}()
	return r
}

func c24CtxRunInBubble(t *testing.T, c c24Case, res *c24Result) {
	fail := func(class, format string, a ...any) {
		res.Fails = append(res.Fails, c24Fail{class, fmt.Sprintf(format, a...)})
	}
	pt := c.Item
	plan := func(int) c24ConnPlan {
		p := c24ConnPlan{Settings: []http2.Setting{{ID: http2.SettingMaxConcurrentStreams, Val: 100}}}
		switch pt {
		case "quota":
			p.Settings = []http2.Setting{{ID: http2.SettingMaxConcurrentStreams, Val: 0}}
		case "flowctl":
			p.Settings = append(p.Settings, http2.Setting{ID: http2.SettingInitialWindowSize, Val: 0})
		}
		return p
	}
	var dialOpts []grpc.DialOption
	callOpts := []grpc.CallOption{grpc.ForceCodecV2(c24Codec{})}
	switch pt {
	case "creds-call-raw":
		callOpts = append(callOpts, grpc.PerRPCCredentials(c24BlockingCreds{}))
	case "creds-call-st":
		callOpts = append(callOpts, grpc.PerRPCCredentials(c24BlockingCreds{asStatus: true}))
	case "creds-dial-raw":
		dialOpts = append(dialOpts, grpc.WithPerRPCCredentials(c24BlockingCreds{}))
	case "pick-plainerr":
		callOpts = append(callOpts, grpc.WaitForReady(true))
	}
	w := c24NewWorld(t, c24ServiceConfigRetry, pt != "noresolve", plan, dialOpts...)
	defer w.close()
	if w.cc == nil {
		res.Engine = w.engineErr()
		return
	}
	w.connect()
	if pt != "noresolve" {
		if lb := w.getLB(); lb == nil || lb.state0() != connectivity.Ready {
			res.Engine = "set-up: LB/SubConn not ready: " + w.engineErr()
			return
		}
		switch pt {
		case "nopicker":
		case "pick-nosc":
			w.publish(c24KNoSC, nil)
		case "pick-nonready":
			w.publish(c24KNonReady, nil)
		case "pick-plainerr":
			w.publish(c24KPlain, fmt.Errorf("scripted plain picker error"))
		default:
			w.publish(c24KReady, nil)
		}
		synctest.Wait()
	}
	method := "/n/m"
	if c.Policy {
		method = "/s/m"
	}
	var ctx context.Context
	var cancel context.CancelFunc
	if c.Phase == "deadline" {
		ctx, cancel = w.ctx(time.Second)
	} else {
		ctx, cancel = w.ctx(0)
	}
	req := []byte("request")
	if pt == "flowctl" {
		req = make([]byte, 100<<10)
	}
	rpc := c24CtxStart(w, ctx, c.API, method, req, callOpts)
	synctest.Wait()

	// ---- drive the RPC to the blocking point ----
	need := func() (c24Stream, bool) {
		ss := w.newStreams()
		if len(ss) != 1 {
			res.Engine = fmt.Sprintf("script drift: %d request streams on the wire, want 1; %s", len(ss), rpc)
			return c24Stream{}, false
		}
		return ss[0], true
	}
	pushback := func(ms int) [2]string { return [2]string{"grpc-retry-pushback-ms", fmt.Sprint(ms)} }
	switch pt {
	case "recv-headers", "flowctl":
		if _, ok := need(); !ok {
			return
		}
	case "recv-message":
		s, ok := need()
		if !ok {
			return
		}
		s.Peer.WriteHeaders(s.ID, c24RespHdr, false)
	case "tretry-pick":
		s, ok := need()
		if !ok {
			return
		}
		w.publish(c24KNoSC, nil)
		synctest.Wait()
		s.Peer.WriteRST(s.ID, http2.ErrCodeRefusedStream)
	case "backoff":
		s, ok := need()
		if !ok {
			return
		}
		s.trailersOnly(int(codes.Unavailable))
	case "pushback":
		s, ok := need()
		if !ok {
			return
		}
		s.trailersOnly(int(codes.Unavailable), pushback(8000))
	case "replay-quota", "replay-pick":
		s, ok := need()
		if !ok {
			return
		}
		if pt == "replay-quota" {
			s.Peer.WriteSettings(http2.Setting{ID: http2.SettingMaxConcurrentStreams, Val: 0})
		} else {
			w.publish(c24KNoSC, nil)
		}
		synctest.Wait()
		s.trailersOnly(int(codes.Unavailable), pushback(100))
		synctest.Wait()
		time.Sleep(100 * time.Millisecond) // the retry attempt starts replaying at +100 ms
	default:
		if ss := w.newStreams(); len(ss) != 0 {
			res.Engine = fmt.Sprintf("script drift: request headers on the wire at blocking point %s; %s", pt, rpc)
			return
		}
	}
	synctest.Wait()
	if ss := w.newStreams(); len(ss) != 0 {
		res.Engine = fmt.Sprintf("script drift: an unexpected (retry) attempt reached the wire at blocking point %s; %s", pt, rpc)
		return
	}
	if rpc.finished() {
		res.Engine = fmt.Sprintf("script drift: RPC finished before its context ended at blocking point %s; %s", pt, rpc)
		return
	}
	blockedIn := rpc.blockedIn()

	// ---- the context ends ----
	if c.Phase == "cancel" {
		time.Sleep(500*time.Millisecond - time.Since(w.epoch))
		synctest.Wait()
		if rpc.finished() {
			res.Engine = fmt.Sprintf("script drift: RPC finished before the cancel at blocking point %s; %s", pt, rpc)
			return
		}
		cancel()
	}
	synctest.Wait()
	time.Sleep(3*time.Second - time.Since(w.epoch))
	synctest.Wait()
	if !rpc.finished() {
		res.Engine = fmt.Sprintf("RPC still running 2 s after its context ended (blocked in %s); %s", rpc.blockedIn(), rpc)
		return
	}

	// ---- oracle: every non-nil, non-io.EOF error is a status with a legal code ----
	var first error
	for _, o := range rpc.snapshot() {
		if o.Err == nil {
			continue
		}
		if o.Err == io.EOF && (o.Name == "SendMsg" || o.Name == "RecvMsg") {
			continue
		}
		res.NErrs++
		if first == nil {
			first = o.Err
		}
		st, ok := status.FromError(o.Err)
		switch {
		case !ok:
			fail("not-a-status", "%s returned %T %q, which carries no gRPC status (status.FromError ok=false); the RPC's context ended (%s) while it was blocked at '%s' (in %s)", o.Name, o.Err, o.Err, c.Phase, pt, blockedIn)
		case st.Code() == codes.OK || st.Code() > codes.Unauthenticated:
			fail("illegal-code", "%s returned status code %d (%q)", o.Name, st.Code(), o.Err)
		}
	}
	if first == nil {
		res.Engine = fmt.Sprintf("script drift: the context ended at blocking point %s but no API call returned an error; %s", pt, rpc)
		return
	}
	var ops []string
	for _, o := range rpc.snapshot() {
		if o.Err != nil && o.Err != io.EOF {
			ops = append(ops, o.Name)
		}
	}
	res.Outcome = fmt.Sprintf("ctxend: %s -> %v from %s", pt, status.Code(first), strings.Join(ops, ","))
	res.Trace = fmt.Sprintf("blocked in %s | %s | first error: %q", blockedIn, rpc, first)
	if e := w.engineErr(); e != "" && res.Engine == "" {
		res.Engine = e
	}
}
