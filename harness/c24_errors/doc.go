//go:build verif

// Package h_c24 hosts the E4 harness of property C24 (every RPC error is a
// status with a legal code): a real grpc.ClientConn with scripted error
// sources (pickers, config selectors, per-RPC credentials, dialers, raw HTTP/2
// server faults) inside synctest bubbles.
package h_c24
