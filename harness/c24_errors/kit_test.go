//go:build verif

package h_c24

// Shared E4 "world" kit: one real grpc.ClientConn wired to a manual resolver,
// a scripted LB policy (pickers are published by the test, every pick result
// carries a ledgered Done callback) and a scripted dialer that hands out raw
// HTTP/2 server peers (or a real server's listener). Everything lives inside
// one synctest bubble; the bubble's root goroutine drives the history and calls
// synctest.Wait() between events.

import (
	"context"
	"fmt"
	"io"
	"net"
	"runtime"
	"sort"
	"strings"
	"sync"
	"testing"
	"testing/synctest"
	"time"

	"golang.org/x/net/http2"
	"google.golang.org/grpc"
	"google.golang.org/grpc/balancer"
	"google.golang.org/grpc/codes"
	"google.golang.org/grpc/connectivity"
	"google.golang.org/grpc/credentials/insecure"
	"google.golang.org/grpc/internal/verif/wire"
	"google.golang.org/grpc/mem"
	"google.golang.org/grpc/resolver"
	"google.golang.org/grpc/resolver/manual"
	"google.golang.org/grpc/status"
)

// ---------------------------------------------------------------- codec

// c24Codec passes []byte / *[]byte through unchanged.
type c24Codec struct{}

func (c24Codec) Name() string { return "verif-raw" }
func (c24Codec) Marshal(v any) (mem.BufferSlice, error) {
	switch b := v.(type) {
	case []byte:
		return mem.BufferSlice{mem.SliceBuffer(b)}, nil
	case *[]byte:
		return mem.BufferSlice{mem.SliceBuffer(*b)}, nil
	}
	return nil, fmt.Errorf("c24Codec: unsupported %T", v)
}
func (c24Codec) Unmarshal(data mem.BufferSlice, v any) error {
	p, ok := v.(*[]byte)
	if !ok {
		return fmt.Errorf("c24Codec: unsupported %T", v)
	}
	*p = data.Materialize()
	return nil
}

// ---------------------------------------------------------------- LB policy

const c24LBName = "verif_c24_lb"

// picker kinds
const (
	c24KNoSC     = iota // ErrNoSubConnAvailable
	c24KPlain           // plain (non-status) error
	c24KStatus          // status error
	c24KNonReady        // a SubConn that is never connected (IDLE), with Done
	c24KReady           // the connected SubConn, with Done
)

var c24KindNames = []string{"nosc", "plainerr", "statuserr", "nonready", "ready"}

// c24Cur is the world of the bubble that is currently running (bubbles run
// strictly one after the other in a process).
var c24Cur *c24World

type c24LBBuilder struct{}

func (c24LBBuilder) Name() string { return c24LBName }
func (c24LBBuilder) Build(cc balancer.ClientConn, _ balancer.BuildOptions) balancer.Balancer {
	w := c24Cur
	lb := &c24LB{w: w, bcc: cc}
	w.mu.Lock()
	w.lb = lb
	w.mu.Unlock()
	return lb
}

func init() { balancer.Register(c24LBBuilder{}) }

type c24LB struct {
	w        *c24World
	bcc      balancer.ClientConn
	mu       sync.Mutex
	sc0, sc1 balancer.SubConn
	st0      connectivity.State
	st0Hist  []connectivity.State
	closed   bool
}

func (b *c24LB) UpdateClientConnState(s balancer.ClientConnState) error {
	b.mu.Lock()
	defer b.mu.Unlock()
	if b.sc0 != nil || len(s.ResolverState.Addresses) == 0 {
		return nil
	}
	var err error
	b.sc0, err = b.bcc.NewSubConn([]resolver.Address{s.ResolverState.Addresses[0]}, balancer.NewSubConnOptions{StateListener: b.onState0})
	if err != nil {
		b.w.fail("NewSubConn sc0: " + err.Error())
		return nil
	}
	b.sc1, err = b.bcc.NewSubConn([]resolver.Address{{Addr: "never-connected"}}, balancer.NewSubConnOptions{StateListener: func(balancer.SubConnState) {}})
	if err != nil {
		b.w.fail("NewSubConn sc1: " + err.Error())
		return nil
	}
	b.sc0.Connect()
	return nil
}

func (b *c24LB) onState0(s balancer.SubConnState) {
	b.mu.Lock()
	b.st0 = s.ConnectivityState
	b.st0Hist = append(b.st0Hist, s.ConnectivityState)
	sc, closed := b.sc0, b.closed
	b.mu.Unlock()
	if s.ConnectivityState == connectivity.Idle && !closed && b.w.reconnect {
		sc.Connect()
	}
}

func (b *c24LB) state0() connectivity.State {
	b.mu.Lock()
	defer b.mu.Unlock()
	return b.st0
}

func (b *c24LB) ResolverError(error)                                        {}
func (b *c24LB) UpdateSubConnState(balancer.SubConn, balancer.SubConnState) {}
func (b *c24LB) ExitIdle()                                                  {}
func (b *c24LB) Close() {
	b.mu.Lock()
	b.closed = true
	b.mu.Unlock()
}

// c24DoneCall is one invocation of a Done callback.
type c24DoneCall struct {
	HasErr        bool
	Code          codes.Code
	ErrText       string
	BytesSent     bool
	BytesReceived bool
	HasTrailer    bool
	At            time.Duration
}

// c24DoneRec is the ledger entry of one pick result handed to the channel.
type c24DoneRec struct {
	ID    int
	Gen   int
	Kind  int
	Calls []c24DoneCall
}

type c24Picker struct {
	w     *c24World
	gen   int
	kind  int
	err   error
	picks int
}

func (p *c24Picker) Pick(balancer.PickInfo) (balancer.PickResult, error) {
	w := p.w
	w.mu.Lock()
	p.picks++
	lb := w.lb
	w.mu.Unlock()
	switch p.kind {
	case c24KNoSC:
		return balancer.PickResult{}, balancer.ErrNoSubConnAvailable
	case c24KPlain, c24KStatus:
		return balancer.PickResult{}, p.err
	}
	w.mu.Lock()
	rec := &c24DoneRec{ID: len(w.dones), Gen: p.gen, Kind: p.kind}
	w.dones = append(w.dones, rec)
	w.mu.Unlock()
	done := func(di balancer.DoneInfo) {
		c := c24DoneCall{HasErr: di.Err != nil, BytesSent: di.BytesSent, BytesReceived: di.BytesReceived, HasTrailer: len(di.Trailer) > 0, At: time.Since(w.epoch)}
		if di.Err != nil {
			c.Code = status.Code(di.Err)
			c.ErrText = di.Err.Error()
		}
		w.mu.Lock()
		rec.Calls = append(rec.Calls, c)
		w.mu.Unlock()
	}
	sc := lb.sc0
	if p.kind == c24KNonReady {
		sc = lb.sc1
	}
	return balancer.PickResult{SubConn: sc, Done: done}, nil
}

func (p *c24Picker) nPicks() int {
	p.w.mu.Lock()
	defer p.w.mu.Unlock()
	return p.picks
}

// ---------------------------------------------------------------- world

// c24ConnPlan says what the n-th dial does.
type c24ConnPlan struct {
	Settings []http2.Setting
	Fail     error                   // dialer returns this error
	Hang     bool                    // dialer blocks until its ctx ends
	Listener *wire.Listener          // connect to a real server instead of a raw peer
	Custom   func(server *wire.Conn) // the harness plays the server end itself (no raw peer is created)
}

type c24World struct {
	t         *testing.T
	epoch     time.Time
	mu        sync.Mutex
	cc        *grpc.ClientConn
	res       *manual.Resolver
	lb        *c24LB
	plan      func(n int) c24ConnPlan
	reconnect bool // LB reconnects sc0 whenever it goes IDLE
	dials     int
	peers     []*wire.Peer
	seen      map[string]bool
	pickers   []*c24Picker
	dones     []*c24DoneRec
	engine    []string
	cancels   []context.CancelFunc
	closed    bool
	rawConns  []*wire.Conn
}

// c24StateHook, when set, rewrites the resolver state of the next world (used
// to attach a service config + config selector). Consumed by c24NewWorld.
var c24StateHook func(resolver.State) resolver.State

func (w *c24World) fail(format string, a ...any) {
	w.mu.Lock()
	w.engine = append(w.engine, fmt.Sprintf(format, a...))
	w.mu.Unlock()
}

func (w *c24World) engineErr() string {
	w.mu.Lock()
	defer w.mu.Unlock()
	return strings.Join(w.engine, "; ")
}

func (w *c24World) dial(ctx context.Context, addr string) (net.Conn, error) {
	w.mu.Lock()
	n := w.dials
	w.dials++
	w.mu.Unlock()
	p := c24ConnPlan{Settings: []http2.Setting{{ID: http2.SettingMaxConcurrentStreams, Val: 100}}}
	if w.plan != nil {
		p = w.plan(n)
	}
	if p.Hang {
		<-ctx.Done()
		return nil, ctx.Err()
	}
	if p.Fail != nil {
		return nil, p.Fail
	}
	if p.Listener != nil {
		return p.Listener.Dial()
	}
	c, s := wire.Pipe()
	if p.Custom != nil {
		p.Custom(s)
		w.mu.Lock()
		w.rawConns = append(w.rawConns, s)
		w.mu.Unlock()
		return c, nil
	}
	peer := wire.NewServerPeer(s)
	peer.AutoAckSettings = true
	peer.AutoAckPing = true
	peer.WriteSettings(p.Settings...)
	w.mu.Lock()
	w.peers = append(w.peers, peer)
	w.mu.Unlock()
	return c, nil
}

// c24NewWorld creates the channel. If withAddrs is false the resolver stays
// silent until w.resolve() is called.
func c24NewWorld(t *testing.T, serviceConfig string, withAddrs bool, plan func(int) c24ConnPlan, extra ...grpc.DialOption) *c24World {
	w := &c24World{t: t, epoch: time.Now(), plan: plan, seen: map[string]bool{}, reconnect: true}
	c24Cur = w
	w.res = manual.NewBuilderWithScheme("c24")
	if withAddrs {
		st := resolver.State{Addresses: []resolver.Address{{Addr: "good"}}}
		if c24StateHook != nil {
			st = c24StateHook(st)
		}
		w.res.InitialState(st)
	}
	c24StateHook = nil
	opts := []grpc.DialOption{
		grpc.WithResolvers(w.res),
		grpc.WithContextDialer(w.dial),
		grpc.WithTransportCredentials(insecure.NewCredentials()),
		grpc.WithDefaultServiceConfig(serviceConfig),
	}
	cc, err := grpc.NewClient("c24:///x", append(opts, extra...)...)
	if err != nil {
		w.fail("NewClient: %v", err)
		return w
	}
	w.cc = cc
	return w
}

func (w *c24World) resolve() {
	w.res.UpdateState(resolver.State{Addresses: []resolver.Address{{Addr: "good"}}})
}

// connect leaves idle mode and runs to quiescence.
func (w *c24World) connect() {
	w.cc.Connect()
	synctest.Wait()
}

func (w *c24World) getLB() *c24LB {
	w.mu.Lock()
	defer w.mu.Unlock()
	return w.lb
}

// publish makes the LB policy publish a new picker of the given kind.
func (w *c24World) publish(kind int, err error) *c24Picker {
	lb := w.getLB()
	if lb == nil {
		w.fail("publish: LB policy not built")
		return &c24Picker{w: w, kind: kind}
	}
	w.mu.Lock()
	p := &c24Picker{w: w, gen: len(w.pickers), kind: kind, err: err}
	w.pickers = append(w.pickers, p)
	w.mu.Unlock()
	st := connectivity.Connecting
	switch kind {
	case c24KReady:
		st = connectivity.Ready
	case c24KPlain, c24KStatus:
		st = connectivity.TransientFailure
	}
	lb.bcc.UpdateState(balancer.State{ConnectivityState: st, Picker: p})
	return p
}

func (w *c24World) peerList() []*wire.Peer {
	w.mu.Lock()
	defer w.mu.Unlock()
	return append([]*wire.Peer(nil), w.peers...)
}

// c24Stream identifies a request stream seen by a raw peer.
type c24Stream struct {
	PeerIdx int
	Peer    *wire.Peer
	ID      uint32
	Fields  [][2]string
}

// newStreams returns the request streams (complete HEADERS) not yet returned.
func (w *c24World) newStreams() []c24Stream {
	var out []c24Stream
	for i, p := range w.peerList() {
		for _, f := range p.Log() {
			if f.Type != "HEADERS" && f.Type != "CONTINUATION" {
				continue
			}
			if !f.EndHdrs {
				continue
			}
			k := fmt.Sprintf("%d/%d", i, f.Stream)
			if w.seen[k] {
				continue
			}
			w.seen[k] = true
			out = append(out, c24Stream{PeerIdx: i, Peer: p, ID: f.Stream, Fields: f.Fields})
		}
	}
	return out
}

// awaitStream runs to quiescence and returns the next new request stream; if
// none shows up and republish is set it publishes a fresh READY picker (which
// wakes a pick that found the SubConn not ready) and tries again.
func (w *c24World) awaitStream(republish bool) (c24Stream, bool) {
	for i := 0; i < 4; i++ {
		synctest.Wait()
		if ss := w.newStreams(); len(ss) > 0 {
			if len(ss) > 1 {
				w.fail("awaitStream: %d new streams at once", len(ss))
			}
			return ss[0], true
		}
		if !republish {
			break
		}
		lb := w.getLB()
		if lb == nil || lb.state0() != connectivity.Ready {
			continue
		}
		w.publish(c24KReady, nil)
	}
	return c24Stream{}, false
}

var c24RespHdr = [][2]string{{":status", "200"}, {"content-type", "application/grpc"}}

func (s c24Stream) respondOK() {
	s.Peer.WriteHeaders(s.ID, c24RespHdr, false)
	s.Peer.WriteData(s.ID, false, wire.GrpcMsg(false, []byte("ok")))
	s.Peer.WriteHeaders(s.ID, [][2]string{{"grpc-status", "0"}}, true)
}

func (s c24Stream) trailersOnly(code int, extra ...[2]string) {
	h := append([][2]string{}, c24RespHdr...)
	h = append(h, [2]string{"grpc-status", fmt.Sprint(code)}, [2]string{"grpc-message", "scripted"})
	h = append(h, extra...)
	s.Peer.WriteHeaders(s.ID, h, true)
}

// close shuts everything down and runs to quiescence.
func (w *c24World) close() {
	w.mu.Lock()
	if w.closed {
		w.mu.Unlock()
		return
	}
	w.closed = true
	cancels := w.cancels
	w.mu.Unlock()
	for _, c := range cancels {
		c()
	}
	if w.cc != nil {
		w.cc.Close()
	}
	for _, p := range w.peerList() {
		p.Close()
	}
	w.mu.Lock()
	raws := w.rawConns
	w.mu.Unlock()
	for _, c := range raws {
		c.Close()
	}
	synctest.Wait()
}

func (w *c24World) ctx(timeout time.Duration) (context.Context, context.CancelFunc) {
	var ctx context.Context
	var cancel context.CancelFunc
	if timeout > 0 {
		ctx, cancel = context.WithTimeout(context.Background(), timeout)
	} else {
		ctx, cancel = context.WithCancel(context.Background())
	}
	w.mu.Lock()
	w.cancels = append(w.cancels, cancel)
	w.mu.Unlock()
	return ctx, cancel
}

// ---------------------------------------------------------------- RPC runner

type c24Op struct {
	Name       string
	Err        error
	Begin, End time.Duration
	Done       bool
}

type c24RPC struct {
	w    *c24World
	mu   sync.Mutex
	ops  []*c24Op
	fin  bool
	msgs int
}

func (r *c24RPC) op(name string, f func() error) error {
	o := &c24Op{Name: name, Begin: time.Since(r.w.epoch)}
	r.mu.Lock()
	r.ops = append(r.ops, o)
	r.mu.Unlock()
	err := f()
	r.mu.Lock()
	o.Err, o.End, o.Done = err, time.Since(r.w.epoch), true
	r.mu.Unlock()
	return err
}

func (r *c24RPC) finished() bool {
	r.mu.Lock()
	defer r.mu.Unlock()
	return r.fin
}

// snapshot returns copies of the op records.
func (r *c24RPC) snapshot() []c24Op {
	r.mu.Lock()
	defer r.mu.Unlock()
	out := make([]c24Op, len(r.ops))
	for i, o := range r.ops {
		out[i] = *o
	}
	return out
}

// blockedIn returns the name of the op the RPC goroutine is currently inside ("" if none).
func (r *c24RPC) blockedIn() string {
	ops := r.snapshot()
	if len(ops) == 0 || ops[len(ops)-1].Done {
		return ""
	}
	return ops[len(ops)-1].Name
}

// final returns the RPC's terminal error as the application sees it: the first
// non-nil error other than io.EOF (nil when the RPC ended with io.EOF from
// RecvMsg, i.e. success) and the virtual time at which it was returned.
func (r *c24RPC) final() (error, time.Duration) {
	ops := r.snapshot()
	for _, o := range ops {
		if o.Done && o.Err != nil && o.Err != io.EOF {
			return o.Err, o.End
		}
	}
	if len(ops) > 0 {
		return nil, ops[len(ops)-1].End
	}
	return nil, 0
}

func (r *c24RPC) String() string {
	var sb strings.Builder
	for _, o := range r.snapshot() {
		if !o.Done {
			fmt.Fprintf(&sb, "%s@%v:<blocked> ", o.Name, o.Begin)
			continue
		}
		e := "nil"
		if o.Err == io.EOF {
			e = "EOF"
		} else if o.Err != nil {
			e = status.Code(o.Err).String()
		}
		fmt.Fprintf(&sb, "%s@%v..%v:%s ", o.Name, o.Begin, o.End, e)
	}
	return strings.TrimSpace(sb.String())
}

var c24BidiDesc = &grpc.StreamDesc{StreamName: "m", ClientStreams: true, ServerStreams: true}

func (w *c24World) startUnary(ctx context.Context, method string, req []byte, opts ...grpc.CallOption) *c24RPC {
	r := &c24RPC{w: w}
	opts = append([]grpc.CallOption{grpc.ForceCodecV2(c24Codec{})}, opts...)
	go func() {
		var reply []byte
		r.op("Invoke", func() error { return w.cc.Invoke(ctx, method, req, &reply, opts...) })
		r.mu.Lock()
		r.fin = true
		r.mu.Unlock()
	}()
	return r
}

// startStream runs NewStream, nsend SendMsg, CloseSend, then RecvMsg until error.
func (w *c24World) startStream(ctx context.Context, method string, req []byte, nsend int, opts ...grpc.CallOption) *c24RPC {
	r := &c24RPC{w: w}
	opts = append([]grpc.CallOption{grpc.ForceCodecV2(c24Codec{})}, opts...)
	go func() {
		defer func() {
			r.mu.Lock()
			r.fin = true
			r.mu.Unlock()
		}()
		var cs grpc.ClientStream
		if r.op("NewStream", func() error {
			var e error
			cs, e = w.cc.NewStream(ctx, c24BidiDesc, method, opts...)
			return e
		}) != nil {
			return
		}
		for i := 0; i < nsend; i++ {
			if err := r.op("SendMsg", func() error { return cs.SendMsg(req) }); err != nil {
				break
			}
		}
		r.op("CloseSend", cs.CloseSend)
		for i := 0; i < 8; i++ {
			var m []byte
			if err := r.op("RecvMsg", func() error { return cs.RecvMsg(&m) }); err != nil {
				return
			}
			r.mu.Lock()
			r.msgs++
			r.mu.Unlock()
		}
	}()
	return r
}

// ---------------------------------------------------------------- bubble wrapper

// c24Bubble runs f in its own synctest bubble. A panic on the root goroutine or
// a bubble that cannot end (goroutines still blocked after the history closed
// everything) is returned as a string instead of killing the worker.
func c24Bubble(t *testing.T, f func(t *testing.T)) (problem string) {
	defer func() {
		if p := recover(); p != nil {
			problem = fmt.Sprintf("bubble: %v", p)
		}
	}()
	synctest.Test(t, func(t *testing.T) {
		defer func() {
			if p := recover(); p != nil {
				buf := make([]byte, 4096)
				buf = buf[:runtime.Stack(buf, false)]
				problem = fmt.Sprintf("panic on driver goroutine: %v\n%s", p, buf)
			}
		}()
		f(t)
	})
	return problem
}

func c24SortedKeys(m map[string]int) []string {
	ks := make([]string, 0, len(m))
	for k := range m {
		ks = append(ks, k)
	}
	sort.Strings(ks)
	return ks
}
