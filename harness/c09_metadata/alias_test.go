//go:build verif

package h_c09

// Aliasing family of C09: the application keeps and re-uses the metadata
// objects it hands to the API. The reference takes a SNAPSHOT of an object at
// the moment of every API call ("the client observes exactly the headers and
// trailers the server set", "the handler observes exactly the client's
// metadata"); whatever the application does to its own object afterwards must
// never show on the other side. The converse (objects returned to the
// application can be scribbled on without changing what a second reader gets)
// is checked in every real<->real case, see c09Scribble.

import (
	"context"
	"fmt"
	"sort"
	"strings"

	"google.golang.org/grpc/metadata"
)

// ---------------------------------------------------------------- caller-owned objects

// c09Obj is the reference's value-semantics picture of a caller-owned MD.
type c09Obj map[string][]string

func (o c09Obj) snapshot() [][2]string {
	var out [][2]string
	for _, k := range c09SortedKeys(o) {
		for _, v := range o[k] {
			out = append(out, [2]string{k, v})
		}
	}
	return out
}

func c09Spare(capacity int, vals ...string) []string {
	return append(make([]string, 0, capacity), vals...)
}

// The real objects: value slices have spare capacity so that an in-place
// append by either side lands in memory the other side can see.
func c09AliasObjects() (x, y metadata.MD, mx, my c09Obj) {
	x = metadata.MD{"a": c09Spare(4, "x1", "x2"), "b-bin": c09Spare(2, "\x00\xff")}
	y = metadata.MD{"a": c09Spare(4, "y1"), "d": c09Spare(1, "y2")}
	mx = c09Obj{"a": {"x1", "x2"}, "b-bin": {"\x00\xff"}}
	my = c09Obj{"a": {"y1"}, "d": {"y2"}}
	return
}

// c09Mutate applies one in-place mutation to the real object and to its model.
// i (the op's position) makes every written value distinct.
func c09Mutate(kind string, i int, md metadata.MD, m c09Obj) {
	val := fmt.Sprintf("m-%s%d", kind, i)
	switch kind {
	case "set": // replace the value slice of an existing key
		md.Set("a", val)
		m["a"] = []string{val}
	case "append": // in place when there is spare capacity
		md.Append("a", val)
		m["a"] = append(append([]string(nil), m["a"]...), val)
	case "delete":
		md.Delete("a")
		delete(m, "a")
	case "elem": // overwrite one element of the value slice
		if v := md["a"]; len(v) > 0 {
			v[0] = val
		}
		if v := m["a"]; len(v) > 0 {
			m["a"] = append([]string{val}, v[1:]...)
		}
	case "addkey":
		md.Set("c", val)
		m["c"] = []string{val}
	default:
		panic("c09: unknown mutation " + kind)
	}
}

// ---------------------------------------------------------------- server handler programs

// Symbols: H:o SetHeader(o), S:o SendHeader(o), T:o SetTrailer(o), mo:kind mutate
// object o in place, msg = SendMsg (flushes the headers).
var c09AliasOps = []string{"H:X", "H:Y", "S:X", "T:X", "T:Y", "mX:set", "mX:append", "mX:delete", "mX:elem", "mX:addkey", "mY:elem", "mY:append", "msg"}

func c09AliasIsAPI(op string) bool { return op[1] == ':' && (op[0] == 'H' || op[0] == 'S' || op[0] == 'T') }

// c09AliasLegal: API contract (SendHeader once, no SetHeader/SendHeader after the
// headers went out), one SendMsg at most and only on streams, and at least one
// API call.
func c09AliasLegal(ops []string, shape string, complete bool) bool {
	flushed, msgs, api := false, 0, 0
	for _, op := range ops {
		switch {
		case op == "msg":
			if shape == "unary" || msgs > 0 {
				return false
			}
			msgs++
			flushed = true
		case op[0] == 'H':
			if flushed {
				return false
			}
			api++
		case op[0] == 'S':
			if flushed {
				return false
			}
			flushed = true
			api++
		case op[0] == 'T':
			api++
		}
	}
	return !complete || api > 0
}

func (w *c09World) runAliasProgram(api c09HeaderAPI, sendMsg func() error, rec *c09HandlerCall) {
	x, y, mx, my := c09AliasObjects()
	pick := func(o byte) (metadata.MD, c09Obj) {
		if o == 'X' {
			return x, mx
		}
		return y, my
	}
	for i, op := range w.c.Alias {
		var err error
		switch {
		case op == "msg":
			err = sendMsg()
		case op[0] == 'm':
			md, m := pick(op[1])
			c09Mutate(op[3:], i, md, m)
		default:
			md, _ := pick(op[2])
			switch op[0] {
			case 'H':
				err = api.set(md)
			case 'S':
				err = api.send(md)
			case 'T':
				err = api.trl(md)
			}
		}
		if err != nil {
			rec.OpErrs = append(rec.OpErrs, fmt.Sprintf("#%d %s: %v", i, op, err))
		}
	}
}

// c09RefAlias: every API call snapshots its argument at call time.
func c09RefAlias(ops []string) (hdr, trl c09Ref, flushed bool) {
	_, _, mx, my := c09AliasObjects()
	var h, t [][2]string
	for i, op := range ops {
		switch {
		case op == "msg":
			flushed = true
		case op[0] == 'm':
			m := mx
			if op[1] == 'Y' {
				m = my
			}
			c09Mutate(op[3:], i, metadata.MD{}, m)
		default:
			m := mx
			if op[2] == 'Y' {
				m = my
			}
			switch op[0] {
			case 'H':
				h = append(h, m.snapshot()...)
			case 'S':
				h = append(h, m.snapshot()...)
				flushed = true
			case 'T':
				t = append(t, m.snapshot()...)
			}
		}
	}
	return c09Classify(h), c09Classify(t), flushed
}

// c09AliasMatters: an object is touched (mutated or handed over again) after it
// was handed to an API call.
func c09AliasMatters(ops []string) bool {
	handed := map[byte]bool{}
	for _, op := range ops {
		switch {
		case op == "msg":
		case op[0] == 'm':
			if handed[op[1]] {
				return true
			}
		default:
			if handed[op[2]] {
				return true
			}
			handed[op[2]] = true
		}
	}
	return false
}

func c09AliasSeqs(ops []string, n int, legal func([]string, bool) bool, yield func([]string)) {
	var rec func(prefix []string)
	rec = func(prefix []string) {
		if len(prefix) == n {
			if legal(prefix, true) {
				yield(append([]string(nil), prefix...))
			}
			return
		}
		for _, op := range ops {
			next := append(prefix, op)
			if !legal(next, false) {
				continue
			}
			rec(next)
		}
	}
	rec(nil)
}

// ---------------------------------------------------------------- client programs

// Symbols: app:K AppendToOutgoingContext(ctx, K...) with a re-used kv slice,
// K:elem / K:key overwrite a value / a key of K, new:X NewOutgoingContext(ctx, X),
// X:set / X:elem mutate X (only BEFORE it is handed over: the API documents that
// an MD given to NewOutgoingContext must not be modified afterwards), fc:kind
// mutate the MD returned by FromOutgoingContext(ctx).
var c09CAliasOps = []string{"app:K", "K:elem", "K:key", "new:X", "X:set", "X:elem", "fc:set", "fc:append", "fc:delete", "fc:elem"}

func c09CAliasLegal(ops []string, complete bool) bool {
	handedX, api := false, 0
	for _, op := range ops {
		switch op {
		case "new:X":
			handedX = true
			api++
		case "app:K":
			api++
		case "X:set", "X:elem":
			if handedX {
				return false
			}
		}
	}
	return !complete || api > 0
}

func c09CAliasObjects() (k []string, x metadata.MD, mx c09Obj) {
	k = append(make([]string, 0, 8), "a", "k1", "A", "k2")
	x = metadata.MD{"a": c09Spare(4, "x1", "x2"), "b-bin": c09Spare(2, "\x00\xff")}
	mx = c09Obj{"a": {"x1", "x2"}, "b-bin": {"\x00\xff"}}
	return
}

// c09CAliasRun builds the context with the real API (run==true) and/or the
// reference's list of pairs.
func c09CAlias(ops []string, run bool) (context.Context, context.CancelFunc, [][2]string) {
	ctx, cancel := context.WithCancel(context.Background())
	k, x, mx := c09CAliasObjects()
	mk := append([]string(nil), k...) // model of K
	var pairs [][2]string
	for i, op := range ops {
		switch op {
		case "app:K":
			if run {
				ctx = metadata.AppendToOutgoingContext(ctx, k...)
			}
			for j := 0; j+1 < len(mk); j += 2 {
				pairs = append(pairs, [2]string{c09Lower(mk[j]), mk[j+1]})
			}
		case "K:elem":
			k[1] = fmt.Sprintf("k-el%d", i)
			mk[1] = k[1]
		case "K:key":
			k[0] = "c"
			mk[0] = "c"
		case "new:X":
			if run {
				ctx = metadata.NewOutgoingContext(ctx, x)
			}
			pairs = mx.snapshot()
		case "X:set":
			c09Mutate("set", i, x, mx)
		case "X:elem":
			c09Mutate("elem", i, x, mx)
		default: // fc:kind
			if run {
				if md, ok := metadata.FromOutgoingContext(ctx); ok {
					c09Mutate(strings.TrimPrefix(op, "fc:"), i, md, c09Obj{})
				}
			}
		}
	}
	return ctx, cancel, pairs
}

func c09CAliasMatters(ops []string) bool {
	handed := false
	for _, op := range ops {
		switch {
		case op == "app:K" || op == "new:X":
			handed = true
		case handed && (strings.HasPrefix(op, "K:") || strings.HasPrefix(op, "fc:")):
			return true
		}
	}
	return false
}

// ---------------------------------------------------------------- scribbling on returned objects

func c09CopyMD(md metadata.MD) metadata.MD {
	if md == nil {
		return nil
	}
	out := make(metadata.MD, len(md))
	for k, v := range md {
		out[k] = append([]string(nil), v...)
	}
	return out
}

// c09Scribble does everything an application may do to an MD it was given:
// overwrite every element, append to every key, add a key, delete a key.
func c09Scribble(md metadata.MD) {
	if md == nil {
		return
	}
	keys := make([]string, 0, len(md))
	for k := range md {
		keys = append(keys, k)
	}
	sort.Strings(keys)
	for _, k := range keys {
		v := md[k]
		for i := range v {
			v[i] = "SCRIBBLED"
		}
		md[k] = append(v, "SCRIBBLED-APPEND")
	}
	md["zz-scribble"] = []string{"x"}
	if len(keys) > 0 {
		delete(md, keys[0])
	}
}

func c09SameMD(a, b metadata.MD) bool {
	if len(a) != len(b) {
		return false
	}
	for k, v := range a {
		if w, ok := b[k]; !ok || !c09EqualVals(v, w) {
			return false
		}
	}
	return true
}

// ---------------------------------------------------------------- enumeration

func c09AliasCases(thorough bool) []c09Case {
	var out []c09Case
	fixedClient := []c09Call{{Op: "append", KV: [][2]string{{"a", "v"}}}}
	shapes := []string{"unary", "bidi"}
	if thorough {
		shapes = []string{"unary", "bidi", "bidi-ctx"}
	}
	maxOK, maxErr := 4, 3
	if thorough {
		maxOK, maxErr = 5, 4
	}
	for _, sh := range shapes {
		for _, end := range []string{"ok", "err"} {
			max := maxOK
			if end == "err" {
				max = maxErr
			}
			for n := 1; n <= max; n++ {
				c09AliasSeqs(c09AliasOps, n, func(p []string, complete bool) bool { return c09AliasLegal(p, sh, complete) }, func(p []string) {
					out = append(out, c09Case{Leg: "rr", Shape: sh, End: end, Client: fixedClient, Alias: p})
				})
			}
		}
	}
	cmax := 3
	if thorough {
		cmax = 4
	}
	for _, sh := range []string{"unary", "bidi"} {
		for n := 1; n <= cmax; n++ {
			c09AliasSeqs(c09CAliasOps, n, c09CAliasLegal, func(p []string) {
				out = append(out, c09Case{Leg: "rr", Shape: sh, End: "ok", CAlias: p})
			})
		}
	}
	return out
}
