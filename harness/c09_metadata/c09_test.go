//go:build verif

package h_c09

import (
	"context"
	"fmt"
	"net"
	"sort"
	"strings"
	"testing"
	"testing/synctest"

	"golang.org/x/net/http2"
	"google.golang.org/grpc/codes"
	"google.golang.org/grpc/internal/verif/vk"
	"google.golang.org/grpc/internal/verif/wire"
	"google.golang.org/grpc/metadata"
	"google.golang.org/grpc/status"
)

const c09P = "C09"

// ---------------------------------------------------------------- grammar

// Values are referred to by id so that cases stay valid JSON.
var c09ValueIDs = []string{"empty", "v", "spv", "eacute", "nl", "blob"}

var c09Blob = func() string {
	b := make([]byte, 256)
	for i := range b {
		b[i] = byte(i)
	}
	return string(b)
}()

func c09Val(id string) string {
	switch id {
	case "empty":
		return ""
	case "v":
		return "v"
	case "spv":
		return " v "
	case "eacute":
		return "é"
	case "nl":
		return "\n"
	case "blob":
		return c09Blob
	}
	panic("c09: unknown value id " + id)
}

type c09Call struct {
	Op string      `json:"op"` // client: new-pairs | new-raw | append ; server: set-header | send-header | set-trailer
	KV [][2]string `json:"kv"` // key, value id
}

func c09Flat(kv [][2]string) []string {
	out := make([]string, 0, 2*len(kv))
	for _, p := range kv {
		out = append(out, p[0], c09Val(p[1]))
	}
	return out
}

type c09RawCase struct {
	Pos    string      `json:"pos"`              // rawc: req ; raws: hdr | trl | trl-only
	Key    string      `json:"key,omitempty"`    // -bin key under test
	Wire   []string    `json:"wire,omitempty"`   // wire values of Key, in order (ASCII)
	Extras [][2]string `json:"extras,omitempty"` // reserved-looking fields the raw peer adds
}

type c09Case struct {
	Leg    string      `json:"leg"`   // rr | rawc | raws
	Shape  string      `json:"shape"` // unary | bidi | bidi-ctx
	End    string      `json:"end"`   // ok | err
	Client []c09Call   `json:"client,omitempty"`
	Server []c09Call   `json:"server,omitempty"`
	Raw    *c09RawCase `json:"raw,omitempty"`
	Alias  []string    `json:"alias,omitempty"`  // server handler ops on re-used caller-owned MD objects (alias_test.go)
	CAlias []string    `json:"calias,omitempty"` // client ops on a re-used kv slice / MD object
}

func c09ProgString(p []c09Call) string {
	var sb strings.Builder
	for i, c := range p {
		if i > 0 {
			sb.WriteByte(';')
		}
		sb.WriteString(c.Op)
		sb.WriteByte('(')
		for j, kv := range c.KV {
			if j > 0 {
				sb.WriteByte(',')
			}
			fmt.Fprintf(&sb, "%q=%s", kv[0], kv[1])
		}
		sb.WriteByte(')')
	}
	return sb.String()
}

func (c c09Case) String() string {
	s := fmt.Sprintf("%s/%s/%s", c.Leg, c.Shape, c.End)
	if c.Raw != nil {
		s += fmt.Sprintf(" raw[%s %q=%q extras=%q]", c.Raw.Pos, c.Raw.Key, c.Raw.Wire, c.Raw.Extras)
	}
	if len(c.Client) > 0 {
		s += " C[" + c09ProgString(c.Client) + "]"
	}
	if len(c.Server) > 0 {
		s += " S[" + c09ProgString(c.Server) + "]"
	}
	if len(c.Alias) > 0 {
		s += " A[" + strings.Join(c.Alias, " ") + "]"
	}
	if len(c.CAlias) > 0 {
		s += " CA[" + strings.Join(c.CAlias, " ") + "]"
	}
	return s
}

// ---------------------------------------------------------------- reference model (from the statement)

func c09Lower(s string) string {
	b := []byte(s)
	for i, c := range b {
		if c >= 'A' && c <= 'Z' {
			b[i] = c + 'a' - 'A'
		}
	}
	return string(b)
}

// c09Reserved: the transport-reserved names of the statement: pseudo-headers,
// content-type, te, grpc-status "and similar" (the other headers the gRPC
// HTTP/2 protocol assigns to the transport), user-agent (named by the
// statement as one of the two exceptions to the not-surfaced rule).
func c09Reserved(k string) bool {
	if k != "" && k[0] == ':' {
		return true
	}
	switch k {
	case "content-type", "te", "user-agent", "grpc-status", "grpc-message", "grpc-timeout", "grpc-encoding", "grpc-message-type":
		return true
	}
	return false
}

func c09IsBin(k string) bool { return strings.HasSuffix(k, "-bin") }

func c09KeyValid(k string) bool {
	if k == "" {
		return false
	}
	for i := 0; i < len(k); i++ {
		c := k[i]
		if !(c >= '0' && c <= '9' || c >= 'a' && c <= 'z' || c == '-' || c == '_' || c == '.') {
			return false
		}
	}
	return true
}

func c09ValueValid(k, v string) bool {
	if c09IsBin(k) {
		return true
	}
	for i := 0; i < len(v); i++ {
		if v[i] < 0x20 || v[i] > 0x7e {
			return false
		}
	}
	return true
}

type c09Ref struct {
	Invalid   bool                // some non-reserved pair is invalid: INTERNAL, nothing sent
	Ambiguous bool                // only reserved names carry non-printable values: either outcome
	User      map[string][]string // what the other side must observe (per-key order)
	Reserved  map[string][]string // reserved names supplied by the user: never sent, never surfaced
	Why       string
}

func c09Classify(pairs [][2]string) c09Ref {
	ref := c09Ref{User: map[string][]string{}, Reserved: map[string][]string{}}
	for _, p := range pairs {
		k, v := p[0], p[1]
		if c09Reserved(k) {
			ref.Reserved[k] = append(ref.Reserved[k], v)
			if !c09ValueValid(k, v) {
				ref.Ambiguous = true
			}
			continue
		}
		if !c09KeyValid(k) {
			ref.Invalid, ref.Why = true, fmt.Sprintf("key %q", k)
			continue
		}
		if !c09ValueValid(k, v) {
			ref.Invalid, ref.Why = true, fmt.Sprintf("value of %q", k)
			continue
		}
		ref.User[k] = append(ref.User[k], v)
	}
	return ref
}

// c09RefClient: NewOutgoingContext replaces everything attached before,
// AppendToOutgoingContext adds pairs after what is there; Pairs and
// AppendToOutgoingContext lower-case keys, a raw MD literal does not.
func c09RefClient(prog []c09Call) c09Ref {
	var pairs [][2]string
	for _, c := range prog {
		switch c.Op {
		case "new-pairs", "new-raw":
			pairs = nil
		}
		for _, kv := range c.KV {
			k := kv[0]
			if c.Op != "new-raw" {
				k = c09Lower(k)
			}
			pairs = append(pairs, [2]string{k, c09Val(kv[1])})
		}
	}
	return c09Classify(pairs)
}

// c09RefServer: header = everything given to SetHeader/SendHeader in call
// order, trailer = everything given to SetTrailer in call order.
func c09RefServer(prog []c09Call) (hdr, trl c09Ref, sendsHeader bool) {
	var h, t [][2]string
	for _, c := range prog {
		for _, kv := range c.KV {
			p := [2]string{c09Lower(kv[0]), c09Val(kv[1])}
			if c.Op == "set-trailer" {
				t = append(t, p)
			} else {
				h = append(h, p)
			}
		}
		if c.Op == "send-header" {
			sendsHeader = true
		}
	}
	return c09Classify(h), c09Classify(t), sendsHeader
}

// c09RefB64 is a base64 (RFC 4648 §4) decoder written for the oracle. class is
// "valid" (canonical, padded or unpadded), "grey" (decodable, but the unused
// trailing bits are not zero) or "invalid".
func c09RefB64(s string) (out string, class string) {
	body := s
	pad := 0
	for len(body) > 0 && body[len(body)-1] == '=' {
		body = body[:len(body)-1]
		pad++
	}
	const alpha = "ABCDEFGHIJKLMNOPQRSTUVWXYZabcdefghijklmnopqrstuvwxyz0123456789+/"
	var bits uint32
	nbits := 0
	var b []byte
	for i := 0; i < len(body); i++ {
		x := strings.IndexByte(alpha, body[i])
		if x < 0 {
			return "", "invalid"
		}
		bits = bits<<6 | uint32(x)
		nbits += 6
		if nbits >= 8 {
			nbits -= 8
			b = append(b, byte(bits>>uint(nbits)))
			bits &= 1<<uint(nbits) - 1
		}
	}
	if len(body)%4 == 1 {
		return "", "invalid"
	}
	if pad > 0 && (pad != (4-len(body)%4)%4) {
		return "", "invalid"
	}
	if bits != 0 {
		return string(b), "grey"
	}
	return string(b), "valid"
}

// ---------------------------------------------------------------- checking

type c09Viol struct{ Key, Desc string }

type c09Checker struct {
	c     c09Case
	viols []c09Viol
	out   []string
}

// The one canonical key for "the transport's own content-type value shows up
// in the metadata handed to the application".
const c09KeyContentType = "reserved-name-surfaced/content-type/transport-value"

func (k *c09Checker) viol(class, format string, a ...any) {
	tag := k.c.Leg
	if len(k.c.Alias) > 0 {
		tag = "alias"
	} else if len(k.c.CAlias) > 0 {
		tag = "client-alias"
	}
	k.viols = append(k.viols, c09Viol{Key: class + " [" + tag + "]", Desc: class + ": " + fmt.Sprintf(format, a...) + " | case " + k.c.String()})
}

// compareMD compares an observed metadata map with the reference. allowed
// names the exception keys that may be present with exactly the given values.
func (k *c09Checker) compareMD(where string, got metadata.MD, want c09Ref, allowed map[string][]string) {
	for _, key := range c09SortedKeys(got) {
		vals := got[key]
		if exp, ok := want.User[key]; ok {
			if !c09EqualVals(vals, exp) {
				k.viol("md-mismatch/"+where+"/"+key+"/"+c09DiffKind(vals, exp), "key %q: got %s want %s", key, c09ValsString(vals), c09ValsString(exp))
			}
			continue
		}
		if av, ok := allowed[key]; ok {
			if !c09EqualVals(vals, av) {
				k.viol("reserved-value/"+where+"/"+key, "excepted name %q surfaced with %s, the wire carried %s", key, c09ValsString(vals), c09ValsString(av))
			}
			continue
		}
		if key == "content-type" && c09AllPrefix(vals, "application/grpc") && !c09Intersects(vals, want.Reserved[key]) {
			k.viols = append(k.viols, c09Viol{Key: c09KeyContentType, Desc: fmt.Sprintf("statement: transport-reserved names (…content-type…) are not surfaced as user metadata except :authority and user-agent; %s contains content-type=%s | first seen in case %s", where, c09ValsString(vals), k.c.String())})
			k.out = append(k.out, "content-type-surfaced/"+where)
			continue
		}
		if c09Reserved(key) {
			k.viol("reserved-surfaced/"+where+"/"+key, "reserved name %q surfaced as metadata with %s", key, c09ValsString(vals))
			continue
		}
		k.viol("md-extra/"+where+"/"+key, "unexpected key %q=%s", key, c09ValsString(vals))
	}
	for _, key := range c09SortedKeys(want.User) {
		if _, ok := got[key]; !ok {
			k.viol("md-missing/"+where+"/"+key, "key %q=%s not observed (got %s)", key, c09ValsString(want.User[key]), c09MDString(got))
		}
	}
}

// c09DiffKind names how two value lists differ: count | order | content.
func c09DiffKind(got, want []string) string {
	if len(got) != len(want) {
		return "count"
	}
	a, b := append([]string(nil), got...), append([]string(nil), want...)
	sort.Strings(a)
	sort.Strings(b)
	if c09EqualVals(a, b) {
		return "order"
	}
	return "content"
}

func c09EqualVals(a, b []string) bool {
	if len(a) != len(b) {
		return false
	}
	for i := range a {
		if a[i] != b[i] {
			return false
		}
	}
	return true
}

func c09AllPrefix(vs []string, p string) bool {
	for _, v := range vs {
		if !strings.HasPrefix(v, p) {
			return false
		}
	}
	return len(vs) > 0
}

func c09Intersects(a, b []string) bool {
	for _, x := range a {
		for _, y := range b {
			if x == y {
				return true
			}
		}
	}
	return false
}

// checkRequestBlock: reserved names on the wire (client -> server) carry only
// the transport's own value. The harness sets no deadline and no compressor, so
// grpc-timeout / grpc-encoding / grpc-status / ... can only come from user
// metadata.
func (k *c09Checker) checkRequestBlock(fields [][2]string, method string) (authority, ua []string) {
	count := map[string][]string{}
	for _, f := range fields {
		if c09Reserved(f[0]) {
			count[f[0]] = append(count[f[0]], f[1])
		}
	}
	own := map[string]func(string) bool{
		":method":      func(v string) bool { return v == "POST" },
		":scheme":      func(v string) bool { return v == "http" },
		":path":        func(v string) bool { return v == method },
		":authority":   func(v string) bool { return v == "x" },
		"content-type": func(v string) bool { return strings.HasPrefix(v, "application/grpc") },
		"user-agent":   func(v string) bool { return strings.HasPrefix(v, "grpc-go/") },
		"te":           func(v string) bool { return v == "trailers" },
	}
	for _, name := range c09SortedKeys(count) {
		vals := count[name]
		ok, isOwn := own[name]
		if !isOwn {
			k.viol("reserved-sent/request/"+name, "reserved name %q on the wire with %s (can only stem from user metadata)", name, c09ValsString(vals))
			continue
		}
		if len(vals) != 1 || !ok(vals[0]) {
			k.viol("reserved-sent/request/"+name, "reserved name %q on the wire with %s, want exactly the transport's own value", name, c09ValsString(vals))
		}
	}
	return count[":authority"], count["user-agent"]
}

// checkResponseBlocks: the same for server -> client.
func (k *c09Checker) checkResponseBlocks(blocks []c09Block, wantStatus string, wantMsg string) {
	for i, b := range blocks {
		count := map[string][]string{}
		for _, f := range b.Fields {
			if c09Reserved(f[0]) {
				count[f[0]] = append(count[f[0]], f[1])
			}
		}
		for _, name := range c09SortedKeys(count) {
			vals := count[name]
			bad := false
			lax := wantStatus == "?" // the RPC failed for another reason: only look for duplicates / foreign names
			switch name {
			case ":status":
				bad = i != 0 || len(vals) != 1 || (!lax && vals[0] != "200")
			case "content-type":
				bad = i != 0 || len(vals) != 1 || !strings.HasPrefix(vals[0], "application/grpc")
			case "grpc-status":
				bad = !b.EndStream || len(vals) != 1 || (!lax && vals[0] != wantStatus)
			case "grpc-message":
				bad = !b.EndStream || len(vals) != 1 || (!lax && vals[0] != wantMsg)
			default:
				bad = true
			}
			if bad {
				k.viol("reserved-sent/response/"+name, "header block #%d (end_stream=%v): reserved name %q on the wire with %s", i, b.EndStream, name, c09ValsString(vals))
			}
		}
	}
}

// ---------------------------------------------------------------- real client <-> real server

func c09RunRR(t *testing.T, c c09Case) (k *c09Checker, engine string) {
	k = &c09Checker{c: c}
	problem := c09Bubble(t, func(t *testing.T) {
		w := &c09World{c: c}
		c09Cur = w
		c09NewServer(w)
		c09NewClient(w, func(context.Context, string) (net.Conn, error) {
			conn, err := w.lis.Dial()
			if err != nil {
				return nil, err
			}
			w.mu.Lock()
			defer w.mu.Unlock()
			if w.tee != nil {
				w.engine = append(w.engine, "second dial")
			}
			w.tee = &c09Tee{Conn: conn}
			return w.tee, nil
		})
		if w.cc == nil {
			engine = strings.Join(w.engine, "; ")
			w.srv.Stop()
			return
		}
		ctx, cancel := c09ClientCtx(c.Client)
		if len(c.CAlias) > 0 {
			cancel()
			ctx, cancel, _ = c09CAlias(c.CAlias, true)
		}
		res := c09DoRPC(w.cc, ctx, c.Shape)
		hung := !res.Done
		if hung {
			k.viol("rpc-hang", "RPC did not complete at quiescence")
		}
		var c2s, s2c []byte
		if w.tee != nil {
			c2s, s2c = w.tee.snapshot()
		}
		cancel()
		w.cc.Close()
		w.srv.Stop()
		synctest.Wait()
		if len(w.engine) > 0 {
			engine = strings.Join(w.engine, "; ")
			return
		}
		if hung {
			return
		}
		c09CheckRR(k, w, res, c2s, s2c, &engine)
	})
	if problem != "" && engine == "" {
		engine = problem
	}
	return k, engine
}

func c09CheckRR(k *c09Checker, w *c09World, res *c09Result, c2s, s2c []byte, engine *string) {
	c := k.c
	cref := c09RefClient(c.Client)
	if len(c.CAlias) > 0 {
		_, cancel, pairs := c09CAlias(c.CAlias, false)
		cancel()
		cref = c09Classify(pairs)
	}
	href, tref, sendsHeader := c09RefServer(c.Server)
	if len(c.Alias) > 0 {
		href, tref, sendsHeader = c09RefAlias(c.Alias)
	}
	reqFrames, e1 := c09DecodeStream(c2s, true)
	respFrames, e2 := c09DecodeStream(s2c, false)
	if e1 != "" || e2 != "" {
		*engine = e1 + e2
		return
	}
	reqBlocks := c09HeaderBlocks(reqFrames)
	respBlocks := c09HeaderBlocks(respFrames)
	calls := w.handlerCalls()
	method := "/s/u"
	if c.Shape != "unary" {
		method = "/s/b"
	}

	failedInternal := res.Err != nil && status.Code(res.Err) == codes.Internal && len(reqBlocks) == 0 && len(calls) == 0
	if cref.Invalid || (cref.Ambiguous && res.Err != nil) {
		// invalid user metadata: INTERNAL before anything is sent
		switch {
		case res.Err == nil:
			k.viol("invalid-md-accepted/"+cref.Why, "invalid metadata (%s) but the RPC succeeded; handler saw %v", cref.Why, c09HandlerMDs(calls))
		case status.Code(res.Err) != codes.Internal:
			k.viol("invalid-md-wrong-code/"+cref.Why, "invalid metadata (%s): got %v, want INTERNAL", cref.Why, res.Err)
		}
		if len(reqBlocks) != 0 {
			k.viol("invalid-md-sent/"+cref.Why, "invalid metadata (%s) but a HEADERS block went out: %q", cref.Why, reqBlocks[0].Fields)
		}
		if len(calls) != 0 {
			k.viol("invalid-md-handler-ran/"+cref.Why, "invalid metadata (%s) but the handler ran", cref.Why)
		}
		if failedInternal {
			if cref.Invalid {
				k.out = append(k.out, "client-invalid:INTERNAL,no-HEADERS")
			} else {
				k.out = append(k.out, "client-reserved-nonprintable:INTERNAL,no-HEADERS")
			}
		}
		return
	}
	if cref.Ambiguous {
		k.out = append(k.out, "client-reserved-nonprintable:dropped")
	}

	// valid metadata: the RPC must run and both sides must see exactly what the other set
	wantErr := c.End == "err"
	switch {
	case !wantErr && res.Err != nil:
		if len(reqBlocks) == 1 {
			k.checkRequestBlock(reqBlocks[0].Fields, method)
		}
		k.checkResponseBlocks(respBlocks, "?", "?")
		k.viol("valid-md-rpc-failed/"+status.Code(res.Err).String(), "valid metadata but the RPC failed: %v | c2s: %s | s2c: %s", res.Err, c09FramesString(reqFrames), c09FramesString(respFrames))
		return
	case wantErr && (status.Code(res.Err) != c09EndCode || status.Convert(res.Err).Message() != c09EndMsg):
		k.viol("valid-md-rpc-failed/end-status", "handler returned %v %q, client got %v | s2c: %s", c09EndCode, c09EndMsg, res.Err, c09FramesString(respFrames))
		return
	}
	if len(calls) != 1 {
		k.viol("handler-count", "handler ran %d times", len(calls))
		return
	}
	if len(calls[0].OpErrs) > 0 {
		k.viol("server-api-error", "valid header/trailer metadata rejected: %v", calls[0].OpErrs)
	}
	if len(reqBlocks) != 1 {
		*engine = fmt.Sprintf("expected exactly one request header block, got %d: %s", len(reqBlocks), c09FramesString(reqFrames))
		return
	}
	auth, ua := k.checkRequestBlock(reqBlocks[0].Fields, method)
	k.compareMD("server-incoming", calls[0].MD, cref, map[string][]string{":authority": auth, "user-agent": ua})
	if !c09SameMD(calls[0].MD, calls[0].MD2) {
		k.viol("second-read-differs/server-incoming", "FromIncomingContext gave %s, and after the application wrote to that object %s", c09MDString(calls[0].MD), c09MDString(calls[0].MD2))
	}

	wantStatus, wantMsg := "0", ""
	if wantErr {
		wantStatus, wantMsg = fmt.Sprint(int(c09EndCode)), c09EndMsg
	}
	k.checkResponseBlocks(respBlocks, wantStatus, wantMsg)

	trailersOnly := wantErr && !sendsHeader && len(href.User)+len(href.Reserved) == 0
	if res.HeaderErr != nil {
		k.viol("header-error", "ClientStream.Header() returned %v", res.HeaderErr)
	}
	k.compareMD("client-header", res.Header, href, nil)
	k.compareMD("client-trailer", res.Trailer, tref, nil)
	if res.Second {
		if !c09SameMD(res.Header, res.Header2) {
			k.viol("second-read-differs/client-header", "Header() gave %s, and after the application wrote to the returned objects %s", c09MDString(res.Header), c09MDString(res.Header2))
		}
		if !c09SameMD(res.Trailer, res.Trailer2) {
			k.viol("second-read-differs/client-trailer", "Trailer() gave %s, and after the application wrote to the returned objects %s", c09MDString(res.Trailer), c09MDString(res.Trailer2))
		}
	}
	if res.Alias != "" {
		k.viol("returned-md-shared/header-trailer", "%s", res.Alias)
	}

	// outcome class
	o := fmt.Sprintf("ok:%s user-keys=%d/%d/%d", c.End, len(cref.User), len(href.User), len(tref.User))
	if len(cref.Reserved)+len(href.Reserved)+len(tref.Reserved) > 0 {
		o += " reserved-dropped"
	}
	if trailersOnly {
		o += " trailers-only"
	}
	if len(c.Alias) > 0 || len(c.CAlias) > 0 {
		touched := c09AliasMatters(c.Alias)
		o = "server-alias/end:" + c.End
		if len(c.CAlias) > 0 {
			touched = c09CAliasMatters(c.CAlias)
			o = "client-alias/end:" + c.End
		}
		o += fmt.Sprintf(" header-set=%v trailer-set=%v", len(href.User) > 0, len(tref.User) > 0)
		if trailersOnly {
			o += " trailers-only"
		}
		if touched {
			o += " object-touched-after-handover"
		}
	}
	k.out = append(k.out, o)
}

// c09WireKey is a short stable identity of a raw case's input.
func c09WireKey(rc *c09RawCase) string {
	var parts []string
	for _, w := range rc.Wire {
		if len(w) > 12 {
			w = fmt.Sprintf("%s..(%d)", w[:8], len(w))
		}
		parts = append(parts, w)
	}
	s := "[" + strings.Join(parts, ",") + "]"
	if len(rc.Extras) == 1 {
		s += "+" + rc.Extras[0][0]
	} else if len(rc.Extras) > 1 {
		s += fmt.Sprintf("+%d-extras", len(rc.Extras))
	}
	return s
}

func c09HandlerMDs(calls []c09HandlerCall) []string {
	var out []string
	for _, c := range calls {
		out = append(out, c09MDString(c.MD))
	}
	return out
}

// ---------------------------------------------------------------- raw client -> real server

var c09RawReq = [][2]string{
	{":method", "POST"}, {":scheme", "http"}, {":path", "/s/u"}, {":authority", "auth-x"},
	{"content-type", "application/grpc"}, {"user-agent", "raw-ua/1"}, {"te", "trailers"},
}

func c09RunRawClient(t *testing.T, c c09Case) (k *c09Checker, engine string) {
	k = &c09Checker{c: c}
	problem := c09Bubble(t, func(t *testing.T) {
		w := &c09World{c: c}
		c09Cur = w
		c09NewServer(w)
		conn, err := w.lis.Dial()
		if err != nil {
			engine = err.Error()
			w.srv.Stop()
			return
		}
		peer := wire.NewClientPeer(conn)
		peer.AutoAckSettings = true
		peer.WriteSettings()
		synctest.Wait()
		fields := append([][2]string{}, c09RawReq...)
		fields = append(fields, c.Raw.Extras...)
		for _, v := range c.Raw.Wire {
			fields = append(fields, [2]string{c.Raw.Key, v})
		}
		peer.WriteHeaders(1, fields, false)
		peer.WriteData(1, true, wire.GrpcMsg(false, []byte("req")))
		synctest.Wait()
		log := peer.Log()
		calls := w.handlerCalls()
		peer.Close()
		w.srv.Stop()
		synctest.Wait()

		blocks := c09HeaderBlocks(log)
		var grpcStatus string
		var haveStatus bool
		for _, b := range blocks {
			if b.Stream == 1 && b.EndStream {
				grpcStatus, haveStatus = wire.Field(b.Fields, "grpc-status")
			}
		}
		if !haveStatus {
			k.viol("raw-no-status", "server did not answer stream 1 with trailers: %s", c09FramesString(log))
			return
		}
		// reference
		var want []string
		class := "valid"
		for _, v := range c.Raw.Wire {
			b, cl := c09RefB64(v)
			switch cl {
			case "invalid":
				class = "invalid"
			case "grey":
				if class == "valid" {
					class = "grey"
				}
			}
			want = append(want, b)
		}
		ref := c09Ref{User: map[string][]string{}, Reserved: map[string][]string{}}
		if len(want) > 0 {
			ref.User[c.Raw.Key] = want
		}
		for _, e := range c.Raw.Extras {
			ref.Reserved[e[0]] = append(ref.Reserved[e[0]], e[1])
		}
		rejected := grpcStatus == fmt.Sprint(int(codes.Internal)) && len(calls) == 0
		switch {
		case class == "invalid" || (class == "grey" && rejected):
			if !rejected {
				k.viol(fmt.Sprintf("raw-invalid-bin-accepted/req/%s", c09WireKey(c.Raw)), "malformed base64 %q: grpc-status=%s, handler saw %v", c.Raw.Wire, grpcStatus, c09HandlerMDs(calls))
			} else {
				k.out = append(k.out, "rawc:"+class+"-base64:INTERNAL,handler-not-run")
			}
			return
		}
		if grpcStatus != "0" || len(calls) != 1 {
			k.viol(fmt.Sprintf("raw-valid-rejected/req/%s", c09WireKey(c.Raw)), "well-formed request: grpc-status=%s, handler ran %d times | %s", grpcStatus, len(calls), c09FramesString(log))
			return
		}
		k.compareMD("server-incoming", calls[0].MD, ref, map[string][]string{":authority": {"auth-x"}, "user-agent": {"raw-ua/1"}})
		o := "rawc:" + class + "-base64:decoded"
		if len(c.Raw.Extras) > 0 {
			o = "rawc:reserved-from-peer:dropped"
		}
		k.out = append(k.out, o)
	})
	if problem != "" && engine == "" {
		engine = problem
	}
	return k, engine
}

// ---------------------------------------------------------------- raw server -> real client

func c09RunRawServer(t *testing.T, c c09Case) (k *c09Checker, engine string) {
	k = &c09Checker{c: c}
	problem := c09Bubble(t, func(t *testing.T) {
		w := &c09World{c: c}
		c09Cur = w
		var peer *wire.Peer
		c09NewClient(w, func(context.Context, string) (net.Conn, error) {
			cl, sv := wire.Pipe()
			peer = wire.NewServerPeer(sv)
			peer.AutoAckSettings = true
			peer.AutoAckPing = true
			peer.WriteSettings(http2.Setting{ID: http2.SettingMaxConcurrentStreams, Val: 100})
			return cl, nil
		})
		if w.cc == nil {
			engine = strings.Join(w.engine, "; ")
			return
		}
		ctx, cancel := context.WithCancel(context.Background())
		// the responder: answers the first request stream as scripted
		respond := func() bool {
			if peer == nil {
				return false
			}
			var id uint32
			for _, b := range c09HeaderBlocks(peer.Log()) {
				id = b.Stream
				break
			}
			if id == 0 {
				return false
			}
			var bin [][2]string
			for _, v := range c.Raw.Wire {
				bin = append(bin, [2]string{c.Raw.Key, v})
			}
			hdr := [][2]string{{":status", "200"}, {"content-type", "application/grpc"}}
			trl := [][2]string{{"grpc-status", "0"}}
			switch c.Raw.Pos {
			case "hdr":
				hdr = append(append(hdr, c.Raw.Extras...), bin...)
			case "trl":
				trl = append(append(trl, c.Raw.Extras...), bin...)
			case "trl-only":
				to := append(append([][2]string{}, hdr...), [2]string{"grpc-status", fmt.Sprint(int(c09EndCode))}, [2]string{"grpc-message", c09EndMsg})
				to = append(append(to, c.Raw.Extras...), bin...)
				peer.WriteHeaders(id, to, true)
				return true
			}
			peer.WriteHeaders(id, hdr, false)
			peer.WriteData(id, false, wire.GrpcMsg(false, []byte("ok")))
			peer.WriteHeaders(id, trl, true)
			return true
		}
		// start the RPC, let the request reach the peer, answer, run to quiescence
		resCh := make(chan *c09Result, 1)
		go func() { resCh <- c09RPC(w.cc, ctx, c.Shape) }()
		synctest.Wait()
		if !respond() {
			engine = "raw server never saw a request"
		}
		synctest.Wait()
		var res *c09Result
		select {
		case res = <-resCh:
		default:
			k.viol("rpc-hang", "RPC did not complete at quiescence")
		}
		cancel()
		w.cc.Close()
		if peer != nil {
			peer.Close()
		}
		synctest.Wait()
		if res == nil {
			// drain so that the goroutine ends
			select {
			case <-resCh:
			default:
			}
			return
		}
		if engine != "" {
			return
		}
		var want []string
		class := "valid"
		for _, v := range c.Raw.Wire {
			b, cl := c09RefB64(v)
			switch cl {
			case "invalid":
				class = "invalid"
			case "grey":
				if class == "valid" {
					class = "grey"
				}
			}
			want = append(want, b)
		}
		ref := c09Ref{User: map[string][]string{}, Reserved: map[string][]string{}}
		if len(want) > 0 {
			ref.User[c.Raw.Key] = want
		}
		allowed := map[string][]string{}
		for _, e := range c.Raw.Extras {
			ref.Reserved[e[0]] = append(ref.Reserved[e[0]], e[1])
			if e[0] == "user-agent" || e[0] == ":authority" {
				allowed[e[0]] = append(allowed[e[0]], e[1])
			}
		}
		empty := c09Ref{User: map[string][]string{}, Reserved: ref.Reserved}
		rejected := res.Err != nil && status.Code(res.Err) == codes.Internal
		if class == "invalid" || (class == "grey" && rejected) {
			if !rejected {
				k.viol(fmt.Sprintf("raw-invalid-bin-accepted/%s/%s", c.Raw.Pos, c09WireKey(c.Raw)), "malformed base64 %q from the server: err=%v header=%s trailer=%s", c.Raw.Wire, res.Err, c09MDString(res.Header), c09MDString(res.Trailer))
			} else {
				k.out = append(k.out, "raws:"+class+"-base64:INTERNAL/"+c.Raw.Pos)
			}
			return
		}
		if c.Raw.Pos == "trl-only" {
			if status.Code(res.Err) != c09EndCode || status.Convert(res.Err).Message() != c09EndMsg {
				k.viol(fmt.Sprintf("raw-valid-rejected/%s/%s", c.Raw.Pos, c09WireKey(c.Raw)), "well-formed trailers-only response: client got %v", res.Err)
				return
			}
		} else if res.Err != nil {
			k.viol(fmt.Sprintf("raw-valid-rejected/%s/%s", c.Raw.Pos, c09WireKey(c.Raw)), "well-formed response: client got %v", res.Err)
			return
		}
		switch c.Raw.Pos {
		case "hdr":
			k.compareMD("client-header", res.Header, ref, allowed)
			k.compareMD("client-trailer", res.Trailer, c09Ref{User: map[string][]string{}, Reserved: map[string][]string{}}, nil)
		case "trl":
			k.compareMD("client-header", res.Header, c09Ref{User: map[string][]string{}, Reserved: map[string][]string{}}, nil)
			k.compareMD("client-trailer", res.Trailer, ref, allowed)
		case "trl-only":
			k.compareMD("client-header", res.Header, empty, allowed)
			k.compareMD("client-trailer", res.Trailer, ref, allowed)
		}
		o := "raws:" + class + "-base64:decoded/" + c.Raw.Pos
		if len(c.Raw.Extras) > 0 {
			o = "raws:reserved-from-peer:dropped/" + c.Raw.Pos
		}
		k.out = append(k.out, o)
	})
	if problem != "" && engine == "" {
		engine = problem
	}
	return k, engine
}

// ---------------------------------------------------------------- enumeration

type c09Pair = [2]string

func c09Pairs(keys []string, vals []string) []c09Pair {
	var out []c09Pair
	for _, k := range keys {
		for _, v := range vals {
			out = append(out, c09Pair{k, v})
		}
	}
	return out
}

var (
	c09ClientKeys = []string{"a", "A", "a-bin", "k.1_-", "grpc-x", "grpc-timeout", "content-type", "te", "user-agent", ":authority", ":path", "a b", "grpc-status", "grpc-encoding", ""}
	c09ServerKeys = []string{"a", "A", "a-bin", "k.1_-", "grpc-x", "grpc-timeout", "content-type", "te", "user-agent", ":authority", ":path", "grpc-status", "grpc-message", "grpc-encoding"}

	c09CM2 = []c09Pair{{"a", "v"}, {"a", "spv"}, {"A", "empty"}, {"a-bin", "blob"}, {"a-bin", "eacute"}, {"k.1_-", "v"}, {"grpc-x", "v"},
		{"content-type", "v"}, {":path", "v"}, {"user-agent", "v"}, {":authority", "v"}, {"te", "v"}, {"grpc-timeout", "v"}, {"a b", "v"}, {"a", "nl"}, {"grpc-status", "v"}}
	c09CM3 = []c09Pair{{"a", "v"}, {"a", "spv"}, {"A", "empty"}, {"a-bin", "blob"}, {"grpc-x", "v"}, {"content-type", "v"}, {":authority", "v"}, {"a b", "v"}, {"a", "nl"}}

	c09SM2 = []c09Pair{{"a", "v"}, {"a", "spv"}, {"A", "empty"}, {"a-bin", "blob"}, {"grpc-x", "v"}, {"content-type", "v"}, {"grpc-status", "v"}, {":path", "v"}}
	c09SM3 = []c09Pair{{"a", "v"}, {"a", "spv"}, {"A", "empty"}, {"a-bin", "blob"}, {"content-type", "v"}, {"grpc-status", "v"}}
)

// c09Seqs yields every sequence of exactly n calls over ops x menu.
func c09Seqs(ops []string, menu []c09Pair, n int, legal func([]c09Call) bool, yield func([]c09Call)) {
	var rec func(prefix []c09Call)
	rec = func(prefix []c09Call) {
		if len(prefix) == n {
			yield(append([]c09Call(nil), prefix...))
			return
		}
		for _, op := range ops {
			for _, p := range menu {
				next := append(prefix, c09Call{Op: op, KV: [][2]string{p}})
				if legal != nil && !legal(next) {
					continue
				}
				rec(next)
			}
		}
	}
	rec(nil)
}

// c09ServerLegal: SendHeader at most once, no SetHeader after it (API contract).
func c09ServerLegal(p []c09Call) bool {
	sent := false
	for _, c := range p {
		switch c.Op {
		case "send-header":
			if sent {
				return false
			}
			sent = true
		case "set-header":
			if sent {
				return false
			}
		}
	}
	return true
}

func c09AllCases(thorough bool) []c09Case {
	var out []c09Case
	shapes := []string{"unary", "bidi"}
	clientOps := []string{"new-pairs", "append"}
	serverOps := []string{"set-header", "send-header", "set-trailer"}
	fixedClient := []c09Call{{Op: "append", KV: [][2]string{{"a", "v"}}}}

	// ---- client programs (server sets nothing, handler succeeds)
	// depth 1: every op x key x value
	for _, sh := range shapes {
		for _, op := range []string{"new-pairs", "new-raw", "append"} {
			for _, p := range c09Pairs(c09ClientKeys, c09ValueIDs) {
				out = append(out, c09Case{Leg: "rr", Shape: sh, End: "ok", Client: []c09Call{{Op: op, KV: [][2]string{p}}}})
			}
			// one call carrying two pairs (order inside one call)
			for _, p := range c09CM3 {
				for _, q := range c09CM3 {
					if op == "new-raw" && c09Lower(p[0]) == c09Lower(q[0]) && p[0] != q[0] {
						continue // case-colliding raw literal: undefined
					}
					out = append(out, c09Case{Leg: "rr", Shape: sh, End: "ok", Client: []c09Call{{Op: op, KV: [][2]string{p, q}}}})
				}
			}
		}
		m2, m3 := c09CM2, c09CM3
		if thorough {
			m2 = append(append([]c09Pair{}, c09CM2...), c09Pairs([]string{"a", "A", "a-bin", "k.1_-", "grpc-x", "te", ":path", "a b", ""}, []string{"empty", "eacute", "blob"})...)
			m3 = append(append([]c09Pair{}, c09CM2...), c09Pair{"k.1_-", "spv"}, c09Pair{"a-bin", "empty"}, c09Pair{"", "v"}, c09Pair{"grpc-encoding", "v"})
		}
		c09Seqs(clientOps, m2, 2, nil, func(p []c09Call) { out = append(out, c09Case{Leg: "rr", Shape: sh, End: "ok", Client: p}) })
		c09Seqs(clientOps, m3, 3, nil, func(p []c09Call) { out = append(out, c09Case{Leg: "rr", Shape: sh, End: "ok", Client: p}) })
	}

	// ---- server programs (client sends a=v)
	sshapes := shapes
	if thorough {
		sshapes = []string{"unary", "bidi", "bidi-ctx"}
	}
	for _, sh := range sshapes {
		for _, end := range []string{"ok", "err"} {
			// depth 0 and the bare SendHeader
			out = append(out, c09Case{Leg: "rr", Shape: sh, End: end, Client: fixedClient})
			out = append(out, c09Case{Leg: "rr", Shape: sh, End: end, Client: fixedClient, Server: []c09Call{{Op: "send-header"}}})
			// depth 1: every op x key x valid value
			for _, op := range serverOps {
				for _, key := range c09ServerKeys {
					vals := []string{"empty", "v", "spv"}
					if c09IsBin(key) {
						vals = c09ValueIDs
					}
					for _, v := range vals {
						out = append(out, c09Case{Leg: "rr", Shape: sh, End: end, Client: fixedClient, Server: []c09Call{{Op: op, KV: [][2]string{{key, v}}}}})
					}
				}
				for _, p := range c09SM3 {
					for _, q := range c09SM3 {
						out = append(out, c09Case{Leg: "rr", Shape: sh, End: end, Client: fixedClient, Server: []c09Call{{Op: op, KV: [][2]string{p, q}}}})
					}
				}
			}
			c09Seqs(serverOps, c09SM2, 2, c09ServerLegal, func(p []c09Call) {
				out = append(out, c09Case{Leg: "rr", Shape: sh, End: end, Client: fixedClient, Server: p})
			})
			if end == "ok" || thorough {
				m3 := c09SM3
				if thorough {
					m3 = append(append([]c09Pair{}, c09SM2...), c09Pair{"a-bin", "eacute"}, c09Pair{"te", "v"})
				}
				c09Seqs(serverOps, m3, 3, c09ServerLegal, func(p []c09Call) {
					out = append(out, c09Case{Leg: "rr", Shape: sh, End: end, Client: fixedClient, Server: p})
				})
			}
		}
	}

	// ---- both directions at once: client pair x server header pair x server trailer pair
	for _, sh := range shapes {
		for _, cp := range c09CM3 {
			for _, hp := range c09SM3 {
				for _, tp := range c09SM3 {
					out = append(out, c09Case{Leg: "rr", Shape: sh, End: "ok",
						Client: []c09Call{{Op: "append", KV: [][2]string{cp}}},
						Server: []c09Call{{Op: "set-header", KV: [][2]string{hp}}, {Op: "set-trailer", KV: [][2]string{tp}}}})
				}
			}
		}
	}

	// ---- re-used, mutated caller-owned objects (alias_test.go)
	out = append(out, c09AliasCases(thorough)...)

	// ---- raw peers
	out = append(out, c09RawCases(thorough)...)
	return out
}

func c09B64(b string, padded bool) string {
	const alpha = "ABCDEFGHIJKLMNOPQRSTUVWXYZabcdefghijklmnopqrstuvwxyz0123456789+/"
	var sb strings.Builder
	for i := 0; i < len(b); i += 3 {
		var n uint32
		cnt := 0
		for j := 0; j < 3; j++ {
			n <<= 8
			if i+j < len(b) {
				n |= uint32(b[i+j])
				cnt++
			}
		}
		sb.WriteByte(alpha[n>>18&63])
		sb.WriteByte(alpha[n>>12&63])
		if cnt > 1 {
			sb.WriteByte(alpha[n>>6&63])
		} else if padded {
			sb.WriteByte('=')
		}
		if cnt > 2 {
			sb.WriteByte(alpha[n&63])
		} else if padded {
			sb.WriteByte('=')
		}
	}
	return sb.String()
}

func c09RawCases(thorough bool) []c09Case {
	payloads := []string{"", "\x00", "A", "AB", "ABC", "ABCD", "\xff\xfe\xfd", "\xfb\xff", c09Blob}
	if thorough {
		for n := 5; n <= 9; n++ {
			payloads = append(payloads, c09Blob[250:250+n-4]+c09Blob[:4])
		}
	}
	seen := map[string]bool{}
	var wires []string
	add := func(s string) {
		if !seen[s] {
			seen[s] = true
			wires = append(wires, s)
		}
	}
	for _, p := range payloads {
		add(c09B64(p, true))
		add(c09B64(p, false))
	}
	// malformed / non-canonical
	for _, s := range []string{"!", "!!!!", "QQ=", "Q", "QQ===", "Q=Q=", "QUJD=", "QU JD", "QUI-", "QUI_", "=", "====", "QQ==QQ==", "QUJDR", "Q===", "QR", "QR==", "QUK", "QUK="} {
		add(s)
	}
	var out []c09Case
	type pos struct{ leg, pos, shape string }
	var poss []pos
	poss = append(poss, pos{"rawc", "req", "unary"})
	for _, sh := range []string{"unary", "bidi"} {
		for _, p := range []string{"hdr", "trl", "trl-only"} {
			poss = append(poss, pos{"raws", p, sh})
		}
	}
	for _, ps := range poss {
		for _, wv := range wires {
			out = append(out, c09Case{Leg: ps.leg, Shape: ps.shape, End: "ok", Raw: &c09RawCase{Pos: ps.pos, Key: "a-bin", Wire: []string{wv}}})
		}
		// two values of one key: order
		out = append(out, c09Case{Leg: ps.leg, Shape: ps.shape, End: "ok", Raw: &c09RawCase{Pos: ps.pos, Key: "a-bin", Wire: []string{c09B64("AB", true), c09B64("A", false), c09B64(c09Blob, false)}}})
		out = append(out, c09Case{Leg: ps.leg, Shape: ps.shape, End: "ok", Raw: &c09RawCase{Pos: ps.pos, Key: "a-bin", Wire: []string{c09B64("A", false), "!!!!"}}})
		// reserved-looking names from the peer
		var extras [][2]string
		if ps.leg == "rawc" {
			extras = [][2]string{{"grpc-timeout", "10S"}, {"grpc-encoding", "identity"}, {"grpc-status", "7"}, {"grpc-message", "m"}, {"grpc-message-type", "t"}}
		} else {
			extras = [][2]string{{"te", "x"}, {"grpc-timeout", "1S"}, {"grpc-encoding", "identity"}, {"user-agent", "srv-ua"}, {"grpc-message-type", "t"}}
		}
		for _, e := range extras {
			out = append(out, c09Case{Leg: ps.leg, Shape: ps.shape, End: "ok", Raw: &c09RawCase{Pos: ps.pos, Extras: [][2]string{e}}})
		}
		out = append(out, c09Case{Leg: ps.leg, Shape: ps.shape, End: "ok", Raw: &c09RawCase{Pos: ps.pos, Key: "a-bin", Wire: []string{c09B64("AB", false)}, Extras: extras}})
	}
	return out
}

// ---------------------------------------------------------------- non-triviality

// c09Nontrivial: the case makes the transport decide something about a pair:
// a reserved name, an invalid pair, a binary value that is not ASCII, two
// values of one key (order), a NewOutgoingContext that must erase earlier
// calls, an upper-case key, or any raw-peer case.
func c09Nontrivial(c c09Case) bool {
	if c.Raw != nil {
		return true
	}
	if len(c.Alias) > 0 {
		return c09AliasMatters(c.Alias)
	}
	if len(c.CAlias) > 0 {
		return c09CAliasMatters(c.CAlias)
	}
	seen := map[string]int{}
	for pi, prog := range [][]c09Call{c.Client, c.Server} {
		for i, call := range prog {
			if pi == 0 && i > 0 && strings.HasPrefix(call.Op, "new-") {
				return true
			}
			for _, kv := range call.KV {
				k := c09Lower(kv[0])
				if c09Reserved(k) || !c09KeyValid(kv[0]) || !c09ValueValid(k, c09Val(kv[1])) {
					return true
				}
				if c09IsBin(k) && (kv[1] == "blob" || kv[1] == "eacute" || kv[1] == "nl") {
					return true
				}
				id := fmt.Sprintf("%d/%v/%s", pi, call.Op == "set-trailer", k)
				seen[id]++
				if seen[id] > 1 {
					return true
				}
			}
		}
	}
	return false
}

// ---------------------------------------------------------------- test entry

func c09RunCase(t *testing.T, c c09Case) (*c09Checker, string) {
	switch c.Leg {
	case "rr":
		return c09RunRR(t, c)
	case "rawc":
		return c09RunRawClient(t, c)
	case "raws":
		return c09RunRawServer(t, c)
	}
	return &c09Checker{c: c}, "unknown leg " + c.Leg
}

func TestVerif_C09_Metadata(t *testing.T) {
	r := vk.Start(t, "c09_metadata", "exploration", c09P)
	defer r.Finish()
	r.Rule(c09P, "every program of <=3 metadata API calls (client: NewOutgoingContext via Pairs / raw MD literal, AppendToOutgoingContext; server: SetHeader, SendHeader, SetTrailer) over the stated key x value menu, each as one real unary and one real bidi RPC on a fresh real ClientConn+Server pair, every API-legal handler sequence of <=4 (thorough 5) operations that hand over, re-use and mutate in place two caller-owned MD objects (and the client-side counterpart with a re-used kv slice / MD / FromOutgoingContext result) checked against snapshot-at-call-time semantics, a scribble-then-read-again check of every metadata object returned to the application, plus every listed base64 spelling / reserved-looking header from a raw HTTP/2 peer in every position; a case is non-trivial when it contains a reserved name, an invalid pair, a non-ASCII binary value, two values of one key, an upper-case key, an overwriting NewOutgoingContext, a caller-owned object that is mutated or handed over again after it was handed to the API, or a raw peer (distinct by the case text)")
	r.Assume(c09P, "reserved names 'and similar' are read as: pseudo-headers, content-type, te, user-agent, grpc-status, grpc-message, grpc-timeout, grpc-encoding, grpc-message-type")
	r.Assume(c09P, "a reserved name carrying a non-printable value may either be dropped silently or fail the RPC with INTERNAL before anything is sent (the statement does not rank the two rules)")
	r.Assume(c09P, "'invalid metadata fails the RPC with INTERNAL before anything is sent' is checked for the client's outgoing metadata only; server-side header/trailer menus contain valid and reserved pairs only")
	r.Assume(c09P, "trusted: testing/synctest quiescence, x/net/http2 Framer + hpack used by the tee decoder and the raw peers")

	if r.ReplayFile() != "" {
		var c c09Case
		if err := r.LoadReplay(&c); err != nil {
			r.EngineError("replay: %v", err)
			return
		}
		c09Report(r, t, c)
		return
	}
	cases := c09AllCases(r.Thorough())
	r.Set(c09P, "cases_total_all_shards", 0)
	n := 0
	for i, c := range cases {
		if !r.Mine(i) {
			continue
		}
		if r.OverBudget() {
			r.Cap(c09P, fmt.Sprintf("time budget: stopped at case %d of %d", i, len(cases)))
			break
		}
		c09Report(r, t, c)
		n++
	}
	r.Set(c09P, "cases_total_all_shards", n)
}

func c09Report(r *vk.Run, t *testing.T, c c09Case) {
	k, engine := c09RunCase(t, c)
	if engine != "" {
		r.EngineError("case %s: %s", c.String(), engine)
		return
	}
	r.Eval(c09P, 1)
	switch {
	case len(c.Alias) > 0:
		r.AddInt(c09P, "cases_rr_server_alias", 1)
	case len(c.CAlias) > 0:
		r.AddInt(c09P, "cases_rr_client_alias", 1)
	default:
		r.AddInt(c09P, "cases_"+c.Leg, 1)
	}
	if c09Nontrivial(c) {
		r.Nontrivial(c09P, c.String())
	}
	sort.Strings(k.out)
	for _, o := range k.out {
		r.Outcome(c09P, o)
	}
	for _, v := range k.viols {
		r.Violation(c09P, v.Key, v.Desc, c)
	}
	if len(k.viols) == 0 || (len(k.viols) > 0 && k.viols[0].Key == c09KeyContentType) {
		if c09Nontrivial(c) {
			r.Sample(c09P, map[string]any{"case": c.String(), "outcomes": k.out})
		}
	}
}
