//go:build verif

package h_c09

// E4 kit for C09: a real grpc.ClientConn and a real grpc.Server connected
// through an in-memory pipe whose client end is wrapped in a byte tee. The tee
// only copies bytes; after the RPC the two byte streams are decoded by an
// independent x/net/http2 Framer + hpack decoder (c09DecodeStream), so the
// frame log is a ledger of what was really on the wire, not something read out
// of the implementation under test.

import (
	"bytes"
	"context"
	"fmt"
	"io"
	"net"
	"runtime"
	"sort"
	"strings"
	"sync"
	"testing"
	"testing/synctest"

	"golang.org/x/net/http2"
	"golang.org/x/net/http2/hpack"
	"google.golang.org/grpc"
	"google.golang.org/grpc/codes"
	"google.golang.org/grpc/credentials/insecure"
	"google.golang.org/grpc/grpclog"
	"google.golang.org/grpc/internal/verif/wire"
	"google.golang.org/grpc/mem"
	"google.golang.org/grpc/metadata"
	"google.golang.org/grpc/status"
)

func init() {
	grpclog.SetLoggerV2(grpclog.NewLoggerV2(io.Discard, io.Discard, io.Discard))
}

// ---------------------------------------------------------------- codec

type c09Codec struct{}

func (c09Codec) Name() string { return "verif-raw" }
func (c09Codec) Marshal(v any) (mem.BufferSlice, error) {
	switch b := v.(type) {
	case []byte:
		return mem.BufferSlice{mem.SliceBuffer(b)}, nil
	case *[]byte:
		return mem.BufferSlice{mem.SliceBuffer(*b)}, nil
	}
	return nil, fmt.Errorf("c09Codec: unsupported %T", v)
}
func (c09Codec) Unmarshal(data mem.BufferSlice, v any) error {
	p, ok := v.(*[]byte)
	if !ok {
		return fmt.Errorf("c09Codec: unsupported %T", v)
	}
	*p = data.Materialize()
	return nil
}

// ---------------------------------------------------------------- tee

// c09Tee wraps the client end of the connection and keeps a copy of every byte
// written by the client (c2s) and every byte delivered to the client (s2c).
type c09Tee struct {
	net.Conn
	mu  sync.Mutex
	c2s []byte
	s2c []byte
}

func (t *c09Tee) Read(p []byte) (int, error) {
	n, err := t.Conn.Read(p)
	if n > 0 {
		t.mu.Lock()
		t.s2c = append(t.s2c, p[:n]...)
		t.mu.Unlock()
	}
	return n, err
}

func (t *c09Tee) Write(p []byte) (int, error) {
	n, err := t.Conn.Write(p)
	if n > 0 {
		t.mu.Lock()
		t.c2s = append(t.c2s, p[:n]...)
		t.mu.Unlock()
	}
	return n, err
}

func (t *c09Tee) snapshot() (c2s, s2c []byte) {
	t.mu.Lock()
	defer t.mu.Unlock()
	return append([]byte(nil), t.c2s...), append([]byte(nil), t.s2c...)
}

// c09DecodeStream decodes one direction of a connection with a Framer and an
// hpack decoder of its own. clientSide strips the client preface.
func c09DecodeStream(raw []byte, clientSide bool) ([]wire.Frame, string) {
	if clientSide {
		if len(raw) == 0 {
			return nil, ""
		}
		if !bytes.HasPrefix(raw, []byte(http2.ClientPreface)) {
			return nil, fmt.Sprintf("client byte stream does not start with the preface: %q", raw[:min(len(raw), 32)])
		}
		raw = raw[len(http2.ClientPreface):]
	}
	fr := http2.NewFramer(io.Discard, bytes.NewReader(raw))
	fr.SetMaxReadFrameSize(1 << 24)
	var fields [][2]string
	dec := hpack.NewDecoder(4096, func(f hpack.HeaderField) { fields = append(fields, [2]string{f.Name, f.Value}) })
	var out []wire.Frame
	for {
		f, err := fr.ReadFrame()
		if err == io.EOF {
			return out, ""
		}
		if err != nil {
			return out, "tee decoder: " + err.Error()
		}
		w := wire.Frame{Stream: f.Header().StreamID, Len: int(f.Header().Length), Seq: len(out)}
		switch f := f.(type) {
		case *http2.DataFrame:
			w.Type, w.EndStream = "DATA", f.StreamEnded()
			w.Data = append([]byte(nil), f.Data()...)
		case *http2.HeadersFrame:
			w.Type, w.EndStream, w.EndHdrs = "HEADERS", f.StreamEnded(), f.HeadersEnded()
			if _, err := dec.Write(f.HeaderBlockFragment()); err != nil {
				return out, "tee hpack: " + err.Error()
			}
			if w.EndHdrs {
				if err := dec.Close(); err != nil {
					return out, "tee hpack close: " + err.Error()
				}
				w.Fields, fields = fields, nil
			}
		case *http2.ContinuationFrame:
			w.Type, w.EndHdrs = "CONTINUATION", f.HeadersEnded()
			if _, err := dec.Write(f.HeaderBlockFragment()); err != nil {
				return out, "tee hpack: " + err.Error()
			}
			if w.EndHdrs {
				if err := dec.Close(); err != nil {
					return out, "tee hpack close: " + err.Error()
				}
				w.Fields, fields = fields, nil
			}
		case *http2.SettingsFrame:
			w.Type, w.Ack = "SETTINGS", f.IsAck()
		case *http2.PingFrame:
			w.Type, w.Ack = "PING", f.IsAck()
		case *http2.GoAwayFrame:
			w.Type, w.LastID, w.Code = "GOAWAY", f.LastStreamID, uint32(f.ErrCode)
		case *http2.RSTStreamFrame:
			w.Type, w.Code = "RST_STREAM", uint32(f.ErrCode)
		case *http2.WindowUpdateFrame:
			w.Type, w.Incr = "WINDOW_UPDATE", f.Increment
		default:
			w.Type = "OTHER"
		}
		out = append(out, w)
	}
}

// c09HeaderBlocks returns the complete header blocks (in order) with the
// END_STREAM flag of the HEADERS frame that opened each block.
type c09Block struct {
	Stream    uint32
	EndStream bool
	Fields    [][2]string
}

func c09HeaderBlocks(frames []wire.Frame) []c09Block {
	var out []c09Block
	var es bool
	for _, f := range frames {
		switch f.Type {
		case "HEADERS":
			es = f.EndStream
			if f.EndHdrs {
				out = append(out, c09Block{Stream: f.Stream, EndStream: es, Fields: f.Fields})
			}
		case "CONTINUATION":
			if f.EndHdrs {
				out = append(out, c09Block{Stream: f.Stream, EndStream: es, Fields: f.Fields})
			}
		}
	}
	return out
}

func c09FramesString(frames []wire.Frame) string {
	var sb strings.Builder
	for _, f := range frames {
		sb.WriteString(f.String())
		if f.Fields != nil {
			fmt.Fprintf(&sb, "%q", f.Fields)
		}
		sb.WriteByte(' ')
	}
	return strings.TrimSpace(sb.String())
}

// ---------------------------------------------------------------- world

// c09HandlerCall is what one handler invocation saw and did.
type c09HandlerCall struct {
	Method string
	MD     metadata.MD // first read of FromIncomingContext (copied before it is scribbled on)
	MD2    metadata.MD // second read, after the first result was scribbled on
	HasMD  bool
	OpErrs []string // non-nil errors returned by the header/trailer API calls
}

type c09World struct {
	c      c09Case
	lis    *wire.Listener
	srv    *grpc.Server
	cc     *grpc.ClientConn
	tee    *c09Tee
	mu     sync.Mutex
	calls  []c09HandlerCall
	engine []string
}

// c09Cur is the world of the bubble that is currently running (bubbles run
// strictly one after the other in a process).
var c09Cur *c09World

func (w *c09World) fail(format string, a ...any) {
	w.mu.Lock()
	w.engine = append(w.engine, fmt.Sprintf(format, a...))
	w.mu.Unlock()
}

func (w *c09World) handlerCalls() []c09HandlerCall {
	w.mu.Lock()
	defer w.mu.Unlock()
	return append([]c09HandlerCall(nil), w.calls...)
}

const (
	c09EndCode = codes.Aborted
	c09EndMsg  = "c09-end"
)

// headerAPI abstracts the two API families a handler can use.
type c09HeaderAPI struct {
	set  func(metadata.MD) error
	send func(metadata.MD) error
	trl  func(metadata.MD) error
}

func (w *c09World) runServerProgram(api c09HeaderAPI, rec *c09HandlerCall) {
	for i, c := range w.c.Server {
		md := metadata.Pairs(c09Flat(c.KV)...)
		var err error
		switch c.Op {
		case "set-header":
			err = api.set(md)
		case "send-header":
			err = api.send(md)
		case "set-trailer":
			err = api.trl(md)
		default:
			err = fmt.Errorf("unknown server op %q", c.Op)
		}
		if err != nil {
			rec.OpErrs = append(rec.OpErrs, fmt.Sprintf("#%d %s: %v", i, c.Op, err))
		}
	}
}

// c09ReadIncoming reads the incoming metadata, keeps a copy, scribbles on the
// object it was given and reads again.
func c09ReadIncoming(ctx context.Context, rec *c09HandlerCall) {
	md, ok := metadata.FromIncomingContext(ctx)
	rec.MD, rec.HasMD = c09CopyMD(md), ok
	c09Scribble(md)
	if v := metadata.ValueFromIncomingContext(ctx, "a"); len(v) > 0 {
		v[0] = "SCRIBBLED"
	}
	rec.MD2, _ = metadata.FromIncomingContext(ctx)
}

func c09UnaryHandler(_ any, ctx context.Context, dec func(any) error, _ grpc.UnaryServerInterceptor) (any, error) {
	w := c09Cur
	var in []byte
	if err := dec(&in); err != nil {
		return nil, err
	}
	rec := c09HandlerCall{Method: "u"}
	c09ReadIncoming(ctx, &rec)
	api := c09HeaderAPI{
		set:  func(md metadata.MD) error { return grpc.SetHeader(ctx, md) },
		send: func(md metadata.MD) error { return grpc.SendHeader(ctx, md) },
		trl:  func(md metadata.MD) error { return grpc.SetTrailer(ctx, md) },
	}
	if len(w.c.Alias) > 0 {
		w.runAliasProgram(api, func() error { return fmt.Errorf("SendMsg in a unary handler") }, &rec)
	} else {
		w.runServerProgram(api, &rec)
	}
	w.mu.Lock()
	w.calls = append(w.calls, rec)
	w.mu.Unlock()
	if w.c.End == "err" {
		return nil, status.Error(c09EndCode, c09EndMsg)
	}
	return []byte("ok"), nil
}

func c09StreamHandler(_ any, ss grpc.ServerStream) error {
	w := c09Cur
	ctx := ss.Context()
	rec := c09HandlerCall{Method: "b"}
	c09ReadIncoming(ctx, &rec)
	var in []byte
	if err := ss.RecvMsg(&in); err != nil {
		return err
	}
	api := c09HeaderAPI{
		set:  ss.SetHeader,
		send: ss.SendHeader,
		trl:  func(md metadata.MD) error { ss.SetTrailer(md); return nil },
	}
	if w.c.Shape == "bidi-ctx" {
		api = c09HeaderAPI{
			set:  func(md metadata.MD) error { return grpc.SetHeader(ctx, md) },
			send: func(md metadata.MD) error { return grpc.SendHeader(ctx, md) },
			trl:  func(md metadata.MD) error { return grpc.SetTrailer(ctx, md) },
		}
	}
	if len(w.c.Alias) > 0 {
		w.runAliasProgram(api, func() error { return ss.SendMsg([]byte("m")) }, &rec)
	} else {
		w.runServerProgram(api, &rec)
	}
	w.mu.Lock()
	w.calls = append(w.calls, rec)
	w.mu.Unlock()
	if w.c.End == "err" {
		return status.Error(c09EndCode, c09EndMsg)
	}
	return ss.SendMsg([]byte("ok"))
}

type c09Impl struct{}

var c09Desc = grpc.ServiceDesc{
	ServiceName: "s",
	HandlerType: (*any)(nil),
	Methods:     []grpc.MethodDesc{{MethodName: "u", Handler: c09UnaryHandler}},
	Streams:     []grpc.StreamDesc{{StreamName: "b", Handler: c09StreamHandler, ServerStreams: true, ClientStreams: true}},
}

var c09BidiDesc = &grpc.StreamDesc{StreamName: "b", ClientStreams: true, ServerStreams: true}

func c09NewServer(w *c09World) {
	w.lis = wire.NewListener()
	w.srv = grpc.NewServer(grpc.ForceServerCodecV2(c09Codec{}))
	w.srv.RegisterService(&c09Desc, &c09Impl{})
	go w.srv.Serve(w.lis)
}

func c09NewClient(w *c09World, dial func(context.Context, string) (net.Conn, error)) {
	cc, err := grpc.NewClient("passthrough:///x", grpc.WithContextDialer(dial), grpc.WithTransportCredentials(insecure.NewCredentials()))
	if err != nil {
		w.fail("NewClient: %v", err)
		return
	}
	w.cc = cc
}

// ---------------------------------------------------------------- client side

type c09Result struct {
	Done      bool
	Err       error
	Header    metadata.MD
	HeaderErr error
	Trailer   metadata.MD
	Msgs      int
	// second reads, taken after the objects of the first reads were scribbled on
	Second   bool
	Header2  metadata.MD
	Trailer2 metadata.MD
	Alias    string // unary: the header and trailer objects share memory
}

func c09ClientCtx(prog []c09Call) (context.Context, context.CancelFunc) {
	ctx, cancel := context.WithCancel(context.Background())
	for _, c := range prog {
		switch c.Op {
		case "new-pairs":
			ctx = metadata.NewOutgoingContext(ctx, metadata.Pairs(c09Flat(c.KV)...))
		case "new-raw":
			md := metadata.MD{}
			for _, kv := range c.KV {
				md[kv[0]] = append(md[kv[0]], c09Val(kv[1]))
			}
			ctx = metadata.NewOutgoingContext(ctx, md)
		case "append":
			ctx = metadata.AppendToOutgoingContext(ctx, c09Flat(c.KV)...)
		}
	}
	return ctx, cancel
}

// c09RPC performs the RPC of the given shape on the calling goroutine.
func c09RPC(cc *grpc.ClientConn, ctx context.Context, shape string) *c09Result {
	r := &c09Result{}
	if shape == "unary" {
		var reply []byte
		var h, t metadata.MD
		r.Err = cc.Invoke(ctx, "/s/u", []byte("req"), &reply, grpc.ForceCodecV2(c09Codec{}), grpc.Header(&h), grpc.Trailer(&t))
		if r.Err == nil {
			r.Msgs = 1
		}
		r.Header, r.Trailer = c09CopyMD(h), c09CopyMD(t)
		c09Scribble(h)
		if !c09SameMD(t, r.Trailer) {
			r.Alias = fmt.Sprintf("scribbling on the grpc.Header object changed the grpc.Trailer object: %s -> %s", c09MDString(r.Trailer), c09MDString(t))
		}
		r.Done = true
		return r
	}
	cs, err := cc.NewStream(ctx, c09BidiDesc, "/s/b", grpc.ForceCodecV2(c09Codec{}))
	if err != nil {
		r.Err, r.Done = err, true
		return r
	}
	if err := cs.SendMsg([]byte("req")); err != nil && err != io.EOF {
		r.Err = err
	}
	cs.CloseSend()
	h1, herr := cs.Header()
	r.Header, r.HeaderErr = c09CopyMD(h1), herr
	c09Scribble(h1)
	for i := 0; i < 8; i++ {
		var m []byte
		if err := cs.RecvMsg(&m); err != nil {
			if err != io.EOF {
				r.Err = err
			}
			break
		}
		r.Msgs++
	}
	t1 := cs.Trailer()
	r.Trailer = c09CopyMD(t1)
	c09Scribble(t1)
	r.Header2, _ = cs.Header()
	r.Trailer2 = cs.Trailer()
	r.Second = true
	r.Done = true
	return r
}

// c09DoRPC performs the RPC on a goroutine of its own and runs the bubble to
// quiescence; Done is false if the RPC has not returned by then.
func c09DoRPC(cc *grpc.ClientConn, ctx context.Context, shape string) *c09Result {
	ch := make(chan *c09Result, 1)
	go func() { ch <- c09RPC(cc, ctx, shape) }()
	synctest.Wait()
	select {
	case r := <-ch:
		return r
	default:
		return &c09Result{}
	}
}

// ---------------------------------------------------------------- bubble wrapper

func c09Bubble(t *testing.T, f func(t *testing.T)) (problem string) {
	defer func() {
		if p := recover(); p != nil {
			problem = fmt.Sprintf("bubble: %v", p)
		}
	}()
	synctest.Test(t, func(t *testing.T) {
		defer func() {
			if p := recover(); p != nil {
				buf := make([]byte, 4096)
				buf = buf[:runtime.Stack(buf, false)]
				problem = fmt.Sprintf("panic on driver goroutine: %v\n%s", p, buf)
			}
		}()
		f(t)
	})
	return problem
}

// ---------------------------------------------------------------- small helpers

func c09MDString(md metadata.MD) string {
	ks := make([]string, 0, len(md))
	for k := range md {
		ks = append(ks, k)
	}
	sort.Strings(ks)
	var sb strings.Builder
	sb.WriteByte('{')
	for i, k := range ks {
		if i > 0 {
			sb.WriteByte(' ')
		}
		fmt.Fprintf(&sb, "%q:%s", k, c09ValsString(md[k]))
	}
	sb.WriteByte('}')
	return sb.String()
}

func c09ValsString(vs []string) string {
	var sb strings.Builder
	sb.WriteByte('[')
	for i, v := range vs {
		if i > 0 {
			sb.WriteByte(',')
		}
		if len(v) > 24 {
			fmt.Fprintf(&sb, "%q…(%d bytes)", v[:12], len(v))
		} else {
			fmt.Fprintf(&sb, "%q", v)
		}
	}
	sb.WriteByte(']')
	return sb.String()
}

func c09SortedKeys[V any](m map[string]V) []string {
	ks := make([]string, 0, len(m))
	for k := range m {
		ks = append(ks, k)
	}
	sort.Strings(ks)
	return ks
}
