//go:build verif

// Package h_c09 hosts the E4 harness of property C09 (user metadata crosses
// the wire unchanged and reserved headers never leak): a real grpc.ClientConn
// and a real grpc.Server connected in-memory through a byte tee that feeds an
// independent HTTP/2 + HPACK decoder, plus raw-peer legs, inside synctest
// bubbles.
package h_c09
