module verif/cmd

go 1.25.0
