// vinstr instruments the current sources of grpc-go packages for the E1
// schedule explorer: it rewrites imports of sync / sync/atomic to the vsync /
// vatomic shims and makes every goroutine creation, channel operation and
// select a scheduling point owned by vsched. It reads the files as they are on
// disk now and writes rewritten copies plus an overlay.json fragment.
//
// usage: vinstr -repo /repo -out DIR [-go GO] pkgdir...
// Constructs it cannot rewrite soundly make it exit 2 naming file:line.
package main

import (
	"bytes"
	"encoding/json"
	"flag"
	"fmt"
	"go/ast"
	"go/importer"
	"go/parser"
	"go/printer"
	"go/token"
	"go/types"
	"io"
	"os"
	"os/exec"
	"path/filepath"
	"strconv"
	"strings"
)

const (
	shimBase  = "google.golang.org/grpc/internal/verif/"
	schedName = "vsched__"
)

var (
	repo   = flag.String("repo", "/repo", "repository root")
	outDir = flag.String("out", "", "output directory")
	goBin  = flag.String("go", "go", "go binary")
	noChan = flag.Bool("nochan", false, "only rewrite imports and go statements")
	noMap  = flag.Bool("nomap", false, "do not rewrite map ranges")
)

type stats struct{ imports, gos, chanPoints, selects, ranges, deferClose, mapRanges int }

func die(format string, a ...any) {
	fmt.Fprintf(os.Stderr, "vinstr: "+format+"\n", a...)
	os.Exit(2)
}

type goListPkg struct {
	ImportPath string
	Dir        string
	GoFiles    []string
	Export     string
}

func goList(args ...string) []goListPkg {
	cmd := exec.Command(*goBin, append([]string{"list", "-json=ImportPath,Dir,GoFiles,Export"}, args...)...)
	cmd.Dir = *repo
	cmd.Stderr = os.Stderr
	out, err := cmd.Output()
	if err != nil {
		die("go list %v: %v", args, err)
	}
	dec := json.NewDecoder(bytes.NewReader(out))
	var res []goListPkg
	for {
		var p goListPkg
		if err := dec.Decode(&p); err == io.EOF {
			break
		} else if err != nil {
			die("go list decode: %v", err)
		}
		res = append(res, p)
	}
	return res
}

func main() {
	flag.Parse()
	if *outDir == "" || flag.NArg() == 0 {
		die("usage: vinstr -repo R -out D pkgdir...")
	}
	overlay := map[string]string{}
	var total stats
	report := []string{}
	for _, pd := range flag.Args() {
		pkgs := goList("./" + pd)
		if len(pkgs) != 1 {
			die("package %s: expected one package, got %d", pd, len(pkgs))
		}
		pkg := pkgs[0]
		deps := goList("-export", "-deps", "./"+pd)
		exports := map[string]string{}
		for _, d := range deps {
			if d.Export != "" {
				exports[d.ImportPath] = d.Export
			}
		}
		fset := token.NewFileSet()
		var files []*ast.File
		for _, f := range pkg.GoFiles {
			af, err := parser.ParseFile(fset, filepath.Join(pkg.Dir, f), nil, parser.ParseComments)
			if err != nil {
				die("parse %s: %v", f, err)
			}
			files = append(files, af)
		}
		info := &types.Info{Types: map[ast.Expr]types.TypeAndValue{}, Uses: map[*ast.Ident]types.Object{}}
		conf := types.Config{
			Importer: importer.ForCompiler(fset, "gc", func(path string) (io.ReadCloser, error) {
				e, ok := exports[path]
				if !ok {
					return nil, fmt.Errorf("no export data for %s", path)
				}
				return os.Open(e)
			}),
			Error: func(err error) {},
		}
		if _, err := conf.Check(pkg.ImportPath, fset, files, info); err != nil {
			// type errors are tolerated only if they do not affect what we need;
			// report them so a silent mis-instrumentation cannot happen.
			die("type-check %s: %v", pd, err)
		}
		for i, af := range files {
			in := &instr{fset: fset, info: info, file: af, fname: pkg.GoFiles[i]}
			in.run()
			af.Comments = keepDirectives(af)
			var buf bytes.Buffer
			// SourcePos emits //line directives so that stack traces and the
			// explorer's schedule traces show ORIGINAL file:line positions.
			pcfg := printer.Config{Mode: printer.SourcePos | printer.UseSpaces | printer.TabIndent, Tabwidth: 8}
			if err := pcfg.Fprint(&buf, fset, af); err != nil {
				// fall back to the raw printer for diagnostics
				var b2 bytes.Buffer
				printer.Fprint(&b2, fset, af)
				die("format %s: %v\n%s", pkg.GoFiles[i], err, b2.String())
			}
			dst := filepath.Join(*outDir, strings.ReplaceAll(pd, "/", "_")+"__"+pkg.GoFiles[i])
			if err := os.WriteFile(dst, buf.Bytes(), 0o644); err != nil {
				die("write: %v", err)
			}
			overlay[filepath.Join(pkg.Dir, pkg.GoFiles[i])] = dst
			total.imports += in.st.imports
			total.gos += in.st.gos
			total.chanPoints += in.st.chanPoints
			total.selects += in.st.selects
			total.ranges += in.st.ranges
			total.deferClose += in.st.deferClose
			total.mapRanges += in.st.mapRanges
		}
		report = append(report, fmt.Sprintf("%s: %d files", pd, len(files)))
	}
	b, _ := json.MarshalIndent(map[string]any{"Replace": overlay, "stats": map[string]int{
		"imports": total.imports, "go_stmts": total.gos, "chan_points": total.chanPoints, "selects": total.selects, "chan_ranges": total.ranges, "defer_close": total.deferClose, "map_ranges": total.mapRanges}, "packages": report}, "", " ")
	if err := os.WriteFile(filepath.Join(*outDir, "overlay.json"), b, 0o644); err != nil {
		die("write overlay: %v", err)
	}
	fmt.Printf("vinstr: %s imports=%d go=%d chanpoints=%d selects=%d ranges=%d\n", strings.Join(report, "; "), total.imports, total.gos, total.chanPoints, total.selects, total.ranges)
}

// keepDirectives keeps only //go: directive comment groups (build constraints
// are irrelevant: go list already selected the files for this platform).
func keepDirectives(f *ast.File) []*ast.CommentGroup {
	var out []*ast.CommentGroup
	for _, cg := range f.Comments {
		for _, c := range cg.List {
			if strings.HasPrefix(c.Text, "//go:") && !strings.HasPrefix(c.Text, "//go:build") && !strings.HasPrefix(c.Text, "//go:generate") {
				// only safe when attached as a Doc; those are printed via Doc fields
				_ = c
			}
		}
	}
	return out
}

type instr struct {
	fset      *token.FileSet
	info      *types.Info
	file      *ast.File
	fname     string
	st        stats
	needSched bool
	tmp       int
}

func (in *instr) pos(n ast.Node) string {
	p := in.fset.Position(n.Pos())
	return fmt.Sprintf("%s:%d", filepath.Base(p.Filename), p.Line)
}

func (in *instr) run() {
	// imports
	for _, imp := range in.file.Imports {
		path, _ := strconv.Unquote(imp.Path.Value)
		var shim, def string
		switch path {
		case "sync":
			shim, def = "vsync", "sync"
		case "sync/atomic":
			shim, def = "vatomic", "atomic"
		default:
			continue
		}
		if imp.Name == nil {
			imp.Name = ast.NewIdent(def)
		}
		imp.Path.Value = strconv.Quote(shimBase + shim)
		in.st.imports++
	}
	for _, d := range in.file.Decls {
		switch d := d.(type) {
		case *ast.FuncDecl:
			if d.Body != nil {
				in.block(d.Body)
			}
		case *ast.GenDecl:
			// function literals in package-level var initialisers
			ast.Inspect(d, func(n ast.Node) bool {
				if fl, ok := n.(*ast.FuncLit); ok {
					in.block(fl.Body)
					return false
				}
				return true
			})
		}
	}
	if in.needSched {
		// add the vsched import
		spec := &ast.ImportSpec{Name: ast.NewIdent(schedName), Path: &ast.BasicLit{Kind: token.STRING, Value: strconv.Quote(shimBase + "vsched")}}
		gd := &ast.GenDecl{Tok: token.IMPORT, Specs: []ast.Spec{spec}}
		in.file.Decls = append([]ast.Decl{gd}, in.file.Decls...)
		in.file.Imports = append(in.file.Imports, spec)
	}
}

func (in *instr) newTmp(prefix string) string {
	in.tmp++
	return fmt.Sprintf("%s%d__", prefix, in.tmp)
}

// src prints a node as source text.
func (in *instr) src(n ast.Node) string {
	var buf bytes.Buffer
	if err := printer.Fprint(&buf, in.fset, n); err != nil {
		die("print: %v", err)
	}
	return buf.String()
}

// parseStmts parses statement source into AST statements.
func (in *instr) parseStmts(code string, at ast.Node) []ast.Stmt {
	srcText := "package p\nfunc _() {\n" + code + "\n}\n"
	f, err := parser.ParseFile(token.NewFileSet(), "gen.go", srcText, 0)
	if err != nil {
		die("%s: generated code does not parse: %v\n%s", in.pos(at), err, code)
	}
	body := f.Decls[0].(*ast.FuncDecl).Body.List
	// strip positions so the printer lays the code out freshly
	for _, s := range body {
		clearPos(s)
	}
	return body
}

func clearPos(n ast.Node) {
	ast.Inspect(n, func(x ast.Node) bool {
		switch v := x.(type) {
		case *ast.Ident:
			v.NamePos = token.NoPos
		case *ast.BasicLit:
			v.ValuePos = token.NoPos
		case *ast.BlockStmt:
			v.Lbrace, v.Rbrace = token.NoPos, token.NoPos
		case *ast.CallExpr:
			v.Lparen, v.Rparen = token.NoPos, token.NoPos
		case *ast.CompositeLit:
			v.Lbrace, v.Rbrace = token.NoPos, token.NoPos
		case *ast.FuncLit:
			if v.Type != nil {
				v.Type.Func = token.NoPos
			}
		}
		return true
	})
}

func (in *instr) pointStmt(kind string, at ast.Node) ast.Stmt {
	in.needSched = true
	code := fmt.Sprintf("%s.Point(%s.Op{Kind: %s.%s, Site: %q})", schedName, schedName, schedName, kind, in.pos(at))
	return in.parseStmts(code, at)[0]
}

// hasChanOp reports whether expression/statement n (excluding nested function
// literals) contains a receive or close().
func (in *instr) hasChanOp(n ast.Node) bool {
	if n == nil {
		return false
	}
	found := false
	ast.Inspect(n, func(x ast.Node) bool {
		if found {
			return false
		}
		switch v := x.(type) {
		case *ast.FuncLit:
			return false
		case *ast.UnaryExpr:
			if v.Op == token.ARROW {
				found = true
			}
		case *ast.CallExpr:
			if id, ok := v.Fun.(*ast.Ident); ok && id.Name == "close" {
				if _, isBuiltin := in.info.Uses[id].(*types.Builtin); isBuiltin {
					found = true
				}
			}
		}
		return true
	})
	return found
}

// block rewrites a statement list container recursively.
func (in *instr) block(b *ast.BlockStmt) {
	if b == nil {
		return
	}
	b.List = in.stmts(b.List)
}

func (in *instr) stmts(list []ast.Stmt) []ast.Stmt {
	var out []ast.Stmt
	for _, s := range list {
		out = append(out, in.stmt(s)...)
	}
	return out
}

// funcLits instruments function literals nested in expressions of s (not
// descending into nested statements, which are handled by the walker).
func (in *instr) funcLitsIn(n ast.Node) {
	if n == nil {
		return
	}
	ast.Inspect(n, func(x ast.Node) bool {
		if fl, ok := x.(*ast.FuncLit); ok {
			in.block(fl.Body)
			return false
		}
		return true
	})
}

// stmt returns the replacement statements for s.
func (in *instr) stmt(s ast.Stmt) []ast.Stmt {
	switch v := s.(type) {
	case *ast.BlockStmt:
		in.block(v)
		return []ast.Stmt{v}
	case *ast.LabeledStmt:
		switch inner := v.Stmt.(type) {
		case *ast.SelectStmt:
			if !*noChan {
				die("%s: labeled select is not supported", in.pos(v))
			}
		case *ast.RangeStmt:
			if in.isChanRange(inner) && !*noChan {
				pre, loop := in.chanRange(inner)
				v.Stmt = loop
				return []ast.Stmt{&ast.BlockStmt{List: append(pre, v)}}
			}
			if in.isMapRange(inner) && !*noMap {
				in.funcLitsIn(inner.X)
				in.block(inner.Body)
				blk := in.mapRange(inner)[0].(*ast.BlockStmt)
				v.Stmt = blk.List[len(blk.List)-1]
				blk.List[len(blk.List)-1] = v
				return []ast.Stmt{blk}
			}
		}
		r := in.stmt(v.Stmt)
		if len(r) == 1 {
			v.Stmt = r[0]
			return []ast.Stmt{v}
		}
		// point(s) inserted before: label must stay on the last statement
		v.Stmt = r[len(r)-1]
		return append(r[:len(r)-1:len(r)-1], v)
	case *ast.GoStmt:
		return in.goStmt(v)
	case *ast.SelectStmt:
		if *noChan {
			for _, c := range v.Body.List {
				cc := c.(*ast.CommClause)
				cc.Body = in.stmts(cc.Body)
			}
			return []ast.Stmt{v}
		}
		return in.selectStmt(v)
	case *ast.RangeStmt:
		if in.isChanRange(v) && !*noChan {
			pre, loop := in.chanRange(v)
			return []ast.Stmt{&ast.BlockStmt{List: append(pre, loop)}}
		}
		in.funcLitsIn(v.X)
		in.block(v.Body)
		if in.isMapRange(v) && !*noMap {
			return in.mapRange(v)
		}
		return []ast.Stmt{v}
	case *ast.ForStmt:
		if !*noChan && (in.hasChanOp(v.Cond) || in.hasChanOp(v.Post)) {
			die("%s: channel operation in for-loop header is not supported", in.pos(v))
		}
		var pre []ast.Stmt
		if !*noChan && in.hasChanOp(v.Init) {
			pre = append(pre, in.pointStmt("OpChan", v))
			in.st.chanPoints++
		}
		in.funcLitsIn(v.Init)
		in.funcLitsIn(v.Cond)
		in.funcLitsIn(v.Post)
		in.block(v.Body)
		return append(pre, v)
	case *ast.IfStmt:
		var pre []ast.Stmt
		if !*noChan && (in.hasChanOp(v.Init) || in.hasChanOp(v.Cond)) {
			pre = append(pre, in.pointStmt("OpChan", v))
			in.st.chanPoints++
		}
		in.funcLitsIn(v.Init)
		in.funcLitsIn(v.Cond)
		in.block(v.Body)
		if v.Else != nil {
			r := in.stmt(v.Else)
			if len(r) == 1 {
				v.Else = r[0]
			} else {
				v.Else = &ast.BlockStmt{List: r}
			}
		}
		return append(pre, v)
	case *ast.SwitchStmt:
		var pre []ast.Stmt
		if !*noChan && (in.hasChanOp(v.Init) || in.hasChanOp(v.Tag)) {
			pre = append(pre, in.pointStmt("OpChan", v))
			in.st.chanPoints++
		}
		in.funcLitsIn(v.Init)
		in.funcLitsIn(v.Tag)
		for _, c := range v.Body.List {
			cc := c.(*ast.CaseClause)
			for _, e := range cc.List {
				if !*noChan && in.hasChanOp(e) {
					die("%s: channel operation in case expression is not supported", in.pos(e))
				}
				in.funcLitsIn(e)
			}
			cc.Body = in.stmts(cc.Body)
		}
		return append(pre, v)
	case *ast.TypeSwitchStmt:
		var pre []ast.Stmt
		if !*noChan && (in.hasChanOp(v.Init) || in.hasChanOp(v.Assign)) {
			pre = append(pre, in.pointStmt("OpChan", v))
			in.st.chanPoints++
		}
		in.funcLitsIn(v.Init)
		in.funcLitsIn(v.Assign)
		for _, c := range v.Body.List {
			cc := c.(*ast.CaseClause)
			cc.Body = in.stmts(cc.Body)
		}
		return append(pre, v)
	case *ast.DeferStmt:
		if id, ok := v.Call.Fun.(*ast.Ident); ok && id.Name == "close" && !*noChan {
			if _, isBuiltin := in.info.Uses[id].(*types.Builtin); isBuiltin {
				in.needSched = true
				in.st.deferClose++
				t := in.newTmp("vc")
				code := fmt.Sprintf("%s := %s\ndefer func() { %s.Point(%s.Op{Kind: %s.OpChan, Site: %q}); close(%s) }()", t, in.src(v.Call.Args[0]), schedName, schedName, schedName, in.pos(v), t)
				return in.parseStmts(code, v)
			}
		}
		in.funcLitsIn(v.Call)
		// arguments of a deferred call are evaluated now
		for _, a := range v.Call.Args {
			if !*noChan && in.hasChanOp(a) {
				p := in.pointStmt("OpChan", v)
				in.st.chanPoints++
				return []ast.Stmt{p, v}
			}
		}
		return []ast.Stmt{v}
	case *ast.SendStmt:
		in.funcLitsIn(v.Value)
		if *noChan {
			return []ast.Stmt{v}
		}
		in.st.chanPoints++
		return []ast.Stmt{in.pointStmt("OpChan", v), v}
	case *ast.CaseClause, *ast.CommClause:
		die("%s: unexpected clause", in.pos(v))
	}
	// simple statements: ExprStmt, AssignStmt, ReturnStmt, DeclStmt, IncDec, Branch, Empty
	in.funcLitsIn(s)
	if !*noChan && in.hasChanOp(s) {
		in.st.chanPoints++
		return []ast.Stmt{in.pointStmt("OpChan", s), s}
	}
	return []ast.Stmt{s}
}

func (in *instr) isChanRange(r *ast.RangeStmt) bool {
	tv, ok := in.info.Types[r.X]
	if !ok || tv.Type == nil {
		die("%s: no type for range expression", in.pos(r))
	}
	_, isChan := tv.Type.Underlying().(*types.Chan)
	return isChan
}

func (in *instr) isMapRange(r *ast.RangeStmt) bool {
	tv, ok := in.info.Types[r.X]
	if !ok || tv.Type == nil {
		return false
	}
	_, isMap := tv.Type.Underlying().(*types.Map)
	if !isMap {
		return false
	}
	if r.Tok != token.DEFINE && (r.Key != nil || r.Value != nil) {
		return false // assignment form: left native
	}
	return true
}

func isBlank(e ast.Expr) bool {
	id, ok := e.(*ast.Ident)
	return e == nil || (ok && id.Name == "_")
}

// mapRange turns `for k, v := range m {B}` into
//   m__ := m; for _, k := range vsched.MapKeys(m__) { v, ok := m__[k]; if !ok {continue}; B }
// (labels on the statement are kept by the caller since the result's last
// statement is the loop).
func (in *instr) mapRange(r *ast.RangeStmt) []ast.Stmt {
	in.st.mapRanges++
	in.needSched = true
	m := in.newTmp("vm")
	key := in.newTmp("vkey")
	userKey := !isBlank(r.Key)
	if userKey {
		key = in.src(r.Key)
	}
	var head string
	if !isBlank(r.Value) {
		ok := in.newTmp("vok")
		head = fmt.Sprintf("%s, %s := %s[%s]\nif !%s { continue }", in.src(r.Value), ok, m, key, ok)
	} else {
		ok := in.newTmp("vok")
		head = fmt.Sprintf("_, %s := %s[%s]\nif !%s { continue }", ok, m, key, ok)
	}
	code := fmt.Sprintf("%s := %s\nfor _, %s := range %s.MapKeys(%s) {\n%s\n}", m, in.src(r.X), key, schedName, m, head)
	st := in.parseStmts(code, r)
	loop := st[1].(*ast.RangeStmt)
	loop.Body.List = append(loop.Body.List, r.Body.List...)
	if !userKey {
		// key temp is used by the lookup, fine
	}
	return []ast.Stmt{&ast.BlockStmt{List: st}}
}

// chanRange turns `for v := range ch {B}` into
//   ch__ := ch ; for { Point; v, ok__ := <-ch__; if !ok__ {break}; B }
func (in *instr) chanRange(r *ast.RangeStmt) (pre []ast.Stmt, loop ast.Stmt) {
	in.st.ranges++
	in.needSched = true
	in.block(r.Body)
	ch := in.newTmp("vch")
	ok := in.newTmp("vok")
	pre = in.parseStmts(fmt.Sprintf("%s := %s", ch, in.src(r.X)), r)
	var recv string
	switch {
	case r.Key == nil:
		recv = fmt.Sprintf("_, %s := <-%s", ok, ch)
	case r.Tok == token.DEFINE:
		recv = fmt.Sprintf("%s, %s := <-%s", in.src(r.Key), ok, ch)
	default:
		recv = fmt.Sprintf("var %s bool\n%s, %s = <-%s", ok, in.src(r.Key), ok, ch)
	}
	code := fmt.Sprintf("for {\n%s.Point(%s.Op{Kind: %s.OpChan, Site: %q})\n%s\nif !%s { break }\n}", schedName, schedName, schedName, in.pos(r), recv, ok)
	f := in.parseStmts(code, r)[0].(*ast.ForStmt)
	f.Body.List = append(f.Body.List, r.Body.List...)
	return pre, f
}

func (in *instr) goStmt(g *ast.GoStmt) []ast.Stmt {
	in.st.gos++
	in.needSched = true
	call := g.Call
	in.funcLitsIn(call)
	// go func(){...}() with no parameters/results: pass the literal directly
	if fl, ok := call.Fun.(*ast.FuncLit); ok && len(call.Args) == 0 && (fl.Type.Results == nil || len(fl.Type.Results.List) == 0) {
		wrapper := in.parseStmts(fmt.Sprintf("%s.Go(nil)", schedName), g)[0].(*ast.ExprStmt)
		wrapper.X.(*ast.CallExpr).Args[0] = fl
		return []ast.Stmt{wrapper}
	}
	var pre []string
	var args []string
	for i, a := range call.Args {
		tv := in.info.Types[a]
		if tv.Value != nil || tv.IsNil() {
			args = append(args, in.src(a)) // constants / nil: inline
			continue
		}
		t := in.newTmp("va")
		pre = append(pre, fmt.Sprintf("%s := %s", t, in.src(a)))
		if i == len(call.Args)-1 && call.Ellipsis.IsValid() {
			t += "..."
		}
		args = append(args, t)
	}
	var fn string
	switch f := call.Fun.(type) {
	case *ast.FuncLit:
		// keep literal in place via placeholder
		fn = "PLACEHOLDER__"
		_ = f
	default:
		if _, isSel := call.Fun.(*ast.SelectorExpr); isSel {
			fn = in.src(call.Fun) // method value / package func: receiver evaluated late (documented)
		} else if _, isId := call.Fun.(*ast.Ident); isId {
			fn = in.src(call.Fun)
		} else {
			t := in.newTmp("vf")
			pre = append(pre, fmt.Sprintf("%s := %s", t, in.src(call.Fun)))
			fn = t
		}
	}
	code := strings.Join(pre, "\n") + fmt.Sprintf("\n%s.Go(func() { %s(%s) })", schedName, fn, strings.Join(args, ", "))
	st := in.parseStmts(code, g)
	if fl, ok := call.Fun.(*ast.FuncLit); ok {
		// substitute the placeholder identifier by the literal
		ast.Inspect(st[len(st)-1], func(x ast.Node) bool {
			if ce, ok := x.(*ast.CallExpr); ok {
				if id, ok := ce.Fun.(*ast.Ident); ok && id.Name == "PLACEHOLDER__" {
					ce.Fun = fl
					return false
				}
			}
			return true
		})
	}
	return []ast.Stmt{&ast.BlockStmt{List: st}}
}

// selectStmt performs the hoisting rewrite described in DESIGN.md §2.1.
func (in *instr) selectStmt(s *ast.SelectStmt) []ast.Stmt {
	in.st.selects++
	in.needSched = true
	type kase struct {
		cc      *ast.CommClause
		isSend  bool
		ch, val string // temporaries
		recvTmp string
		okTmp   string
		assign  string // statement placed at the top of the body (v, ok := tmp, oktmp)
	}
	var pre []string
	var cases []*kase
	var def *ast.CommClause
	for _, c := range s.Body.List {
		cc := c.(*ast.CommClause)
		cc.Body = in.stmts(cc.Body)
		if cc.Comm == nil {
			def = cc
			continue
		}
		k := &kase{cc: cc}
		switch cm := cc.Comm.(type) {
		case *ast.SendStmt:
			k.isSend = true
			k.ch, k.val = in.newTmp("vc"), in.newTmp("vv")
			in.funcLitsIn(cm.Value)
			pre = append(pre, fmt.Sprintf("%s := %s", k.ch, in.src(cm.Chan)))
			// value typed by the channel's element type via a typed temporary
			tv := in.info.Types[cm.Value]
			if tv.Value != nil || tv.IsNil() {
				k.val = in.src(cm.Value)
			} else {
				pre = append(pre, fmt.Sprintf("%s := %s", k.val, in.src(cm.Value)))
			}
		case *ast.ExprStmt: // <-ch
			ue, ok := unparen(cm.X).(*ast.UnaryExpr)
			if !ok || ue.Op != token.ARROW {
				die("%s: unsupported select case", in.pos(cm))
			}
			k.ch = in.newTmp("vc")
			pre = append(pre, fmt.Sprintf("%s := %s", k.ch, in.src(ue.X)))
		case *ast.AssignStmt: // v := <-ch ; v, ok := <-ch ; v = <-ch
			if len(cm.Rhs) != 1 {
				die("%s: unsupported select case", in.pos(cm))
			}
			ue, ok := unparen(cm.Rhs[0]).(*ast.UnaryExpr)
			if !ok || ue.Op != token.ARROW {
				die("%s: unsupported select case", in.pos(cm))
			}
			k.ch = in.newTmp("vc")
			pre = append(pre, fmt.Sprintf("%s := %s", k.ch, in.src(ue.X)))
			k.recvTmp = in.newTmp("vr")
			lhs := []string{}
			for _, l := range cm.Lhs {
				lhs = append(lhs, in.src(l))
			}
			rhs := []string{k.recvTmp}
			if len(cm.Lhs) == 2 {
				k.okTmp = in.newTmp("vo")
				rhs = append(rhs, k.okTmp)
			}
			k.assign = fmt.Sprintf("%s %s %s", strings.Join(lhs, ", "), cm.Tok.String(), strings.Join(rhs, ", "))
		default:
			die("%s: unsupported select comm clause", in.pos(cc))
		}
		cases = append(cases, k)
	}
	n := len(cases)
	sel := in.newTmp("vsel")
	var sb strings.Builder
	// The scheduling point comes FIRST: the channel operands of a select are
	// evaluated when the select is entered, i.e. in the same step that performs
	// it (a window between a preceding check and the select stays explorable).
	kv := in.newTmp("vk")
	if n > 0 {
		fmt.Fprintf(&sb, "%s := %s.SelectPoint(%d, %q)\n", kv, schedName, n, in.pos(s))
	}
	for _, p := range pre {
		sb.WriteString(p + "\n")
	}
	for _, k := range cases {
		if k.recvTmp != "" {
			fmt.Fprintf(&sb, "%s := %s.Elem(%s)\n_ = %s\n", k.recvTmp, schedName, k.ch, k.recvTmp)
			if k.okTmp != "" {
				fmt.Fprintf(&sb, "var %s bool\n_ = %s\n", k.okTmp, k.okTmp)
			}
		}
	}
	comm := func(k *kase) string {
		switch {
		case k.isSend:
			return fmt.Sprintf("%s <- %s", k.ch, k.val)
		case k.recvTmp != "" && k.okTmp != "":
			return fmt.Sprintf("%s, %s = <-%s", k.recvTmp, k.okTmp, k.ch)
		case k.recvTmp != "":
			return fmt.Sprintf("%s = <-%s", k.recvTmp, k.ch)
		default:
			return fmt.Sprintf("<-%s", k.ch)
		}
	}
	fmt.Fprintf(&sb, "%s := -1\n", sel)
	if n > 0 {
		iv := in.newTmp("vi")
		if n > 1 || def == nil {
			// non-blocking tries in cyclic order from the chosen rotation start
			fmt.Fprintf(&sb, "for %s := 0; %s < %d && %s < 0; %s++ {\nswitch (%s + %s) %% %d {\n", iv, iv, n, sel, iv, kv, iv, n)
			for i, k := range cases {
				fmt.Fprintf(&sb, "case %d:\nselect {\ncase %s:\n%s = %d\ndefault:\n}\n", i, comm(k), sel, i)
			}
			fmt.Fprintf(&sb, "}\n}\n")
		} else {
			fmt.Fprintf(&sb, "_ = %s\n", kv)
		}
	}
	// fall back to the original (blocking or defaulted) select
	fmt.Fprintf(&sb, "if %s < 0 {\nselect {\n", sel)
	for i, k := range cases {
		fmt.Fprintf(&sb, "case %s:\n%s = %d\n", comm(k), sel, i)
	}
	if def != nil {
		fmt.Fprintf(&sb, "default:\n%s = %d\n", sel, n)
	}
	fmt.Fprintf(&sb, "}\n}\n")
	// dispatch
	fmt.Fprintf(&sb, "switch %s {\n", sel)
	for i, k := range cases {
		fmt.Fprintf(&sb, "case %d:\n", i)
		if k.assign != "" {
			fmt.Fprintf(&sb, "%s\n", k.assign)
		}
	}
	if def != nil {
		fmt.Fprintf(&sb, "case %d:\n", n)
	}
	// keeps the rewritten statement "terminating" when the original select was
	fmt.Fprintf(&sb, "default:\npanic(\"vinstr: unreachable select outcome\")\n}\n")
	st := in.parseStmts(sb.String(), s)
	sw := st[len(st)-1].(*ast.SwitchStmt)
	for i, k := range cases {
		cl := sw.Body.List[i].(*ast.CaseClause)
		cl.Body = append(cl.Body, k.cc.Body...)
	}
	if def != nil {
		cl := sw.Body.List[n].(*ast.CaseClause)
		cl.Body = append(cl.Body, def.Body...)
	}
	return []ast.Stmt{&ast.BlockStmt{List: st}}
}

func unparen(e ast.Expr) ast.Expr {
	for {
		p, ok := e.(*ast.ParenExpr)
		if !ok {
			return e
		}
		e = p.X
	}
}
