# source me: toolchain + offline env for every /verif command
export VERIF_ROOT="${VERIF_ROOT:-/verif}"
GO_125=/root/go/pkg/mod/golang.org/toolchain@v0.0.1-go1.25.0.linux-amd64/bin/go
if [ -x "$GO_125" ]; then export GO="$GO_125"; elif command -v go1.26 >/dev/null 2>&1; then export GO="$(command -v go1.26)"; else export GO=go; fi
export GOTOOLCHAIN=local GOFLAGS=-mod=mod GOPROXY=off GOSUMDB=off
export GOCACHE="${GOCACHE:-/root/.cache/go-build}"
