#!/usr/bin/env python3
"""prints a markdown table of /verif/seeded/*/meta.json"""
import json, glob, os
V = os.path.dirname(os.path.dirname(os.path.abspath(__file__)))
rows = []
for f in sorted(glob.glob(os.path.join(V, "seeded", "*", "meta.json"))):
    m = json.load(open(f))
    name = os.path.basename(os.path.dirname(f))
    v = m.get("verification_by_coordinator", {})
    keys = v.get("vcheck_keys") or []
    caught = m.get("caught_by_check", m.get("caught_by"))
    leg = ", ".join(sorted(set(k[0] for k in keys))) if keys else (", ".join(m.get("caught_by", [])) if isinstance(m.get("caught_by"), list) else "")
    need = (m.get("needs_to_manifest") or "").replace("\n", " ").replace("|", "/")
    if len(need) > 230:
        need = need[:227] + "…"
    rows.append((name, m.get("property"), ", ".join(m.get("files_changed", v.get("files_changed", [])))[:80], need, "yes" if caught else "NO", leg))
print("| seeded change | property | file(s) | what it needs to manifest | caught by quick check | leg(s) reporting |")
print("|---|---|---|---|---|---|")
for r in rows:
    print("| %s | %s | %s | %s | %s | %s |" % r)
print()
print("%d changes, %d caught" % (len(rows), sum(1 for r in rows if r[4] == "yes")))
