#!/bin/bash
# usage: tools/runall.sh [quick|thorough] ID...   — runs checks sequentially, prints a summary table
tier=$1; shift
cd "$(dirname "$0")/.."
for id in "$@"; do
  s=$(date +%s)
  out=$(./vcheck $id --tier $tier 2>&1); rc=$?
  e=$(date +%s)
  echo "$id rc=$rc wall=$((e-s))s $(echo "$out" | grep -c '^KNOWN-FINDING') known | $(echo "$out" | grep '^\[vcheck\]' | sed 's/.*level=//' | cut -c1-150)"
  if [ $rc -ne 0 ]; then echo "$out" | grep -E "VIOLATION|key=|ENGINE-ERROR" | head -6; fi
done
