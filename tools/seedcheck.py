#!/usr/bin/env python3
"""usage: tools/seedcheck.py <seed-out-dir>/<PROP> [--tier quick|thorough] [--no-tests]
Verifies an independently written property-breaking change and runs our check against it:
 1. clean scratch worktree at /repo HEAD; demonstration passes WITHOUT the patch
 2. patch applies, changed packages build, existing tests of the changed packages still pass
 3. demonstration FAILS with the patch
 4. VERIF_REPO=<scratch> ./vcheck <PROP> --tier <tier>  -> caught (exit 1 + VIOLATION) or missed
 5. everything reverted
On success the change is stored as /verif/seeded/<PROP>-<name>/ (patch.diff, demo, meta.json)."""
import sys, os, json, subprocess, shutil, re, time
V = os.path.dirname(os.path.dirname(os.path.abspath(__file__)))
WT = os.environ.get("SEEDCHECK_WT", "/tmp/seedcheck-wt")
GO = "/root/go/pkg/mod/golang.org/toolchain@v0.0.1-go1.25.0.linux-amd64/bin/go"
env = dict(os.environ, GO=GO, GOTOOLCHAIN="local", GOFLAGS="-mod=mod", GOPROXY="off", GOSUMDB="off")

def sh(cmd, cwd=WT, timeout=3600):
    p = subprocess.run(cmd, shell=True, cwd=cwd, env=env, stdout=subprocess.PIPE, stderr=subprocess.STDOUT, text=True, timeout=timeout, executable="/bin/bash")
    return p.returncode, p.stdout

def reset():
    if not os.path.isdir(WT):
        sh("git -C /repo worktree add --detach %s" % WT, cwd="/")
    sh("git checkout -q -- . && git clean -fdq && git checkout -q --detach $(git -C /repo rev-parse HEAD)")

def main():
    d = sys.argv[1].rstrip("/")
    tier = "quick"
    run_tests = True
    if "--tier" in sys.argv:
        tier = sys.argv[sys.argv.index("--tier") + 1]
    if "--no-tests" in sys.argv:
        run_tests = False
    prop = os.path.basename(d)
    meta = json.load(open(os.path.join(d, "meta.json")))
    prop = meta.get("property", prop)
    demo_cmd = meta["demo_cmd"].replace("$GO", GO).replace("${GO}", GO)
    demo_cmd = re.sub(r"cd\s+/tmp/seed/wt\d+\s*&&\s*", "", demo_cmd)  # run in OUR scratch worktree
    demo_cmd = re.sub(r"/tmp/seed/wt\d+/", "", demo_cmd)
    # deliverable files referenced by bare name live in the seed directory
    demo_cmd = re.sub(r"(?<![\w/.-])(demo[\w.-]*\.go(?:\.txt)?)", lambda m: os.path.join(d, m.group(1)), demo_cmd)
    res = {"property": prop, "source_dir": d, "tier": tier}
    reset()
    rc, out = sh(demo_cmd)
    res["demo_without_patch_rc"] = rc
    if rc != 0:
        res["demo_without_patch_tail"] = out[-1500:]
    reset()
    rc, out = sh("git apply %s" % os.path.join(d, "patch.diff"))
    res["patch_applies"] = rc == 0
    if rc != 0:
        res["apply_error"] = out[-800:]
        print(json.dumps(res, indent=1)); return 1
    rc, out = sh("git diff --name-only")
    files = [f for f in out.split() if f.endswith(".go")]
    res["files_changed"] = files
    res["test_file_in_patch"] = any(f.endswith("_test.go") for f in files)
    pkgs = sorted(set("./" + (os.path.dirname(f) or ".") for f in files))
    rc, out = sh("%s build ./... " % GO)
    res["builds"] = rc == 0
    if rc != 0:
        res["build_error"] = out[-1500:]
    if run_tests and res["builds"]:
        t0 = time.time()
        rc, out = sh("%s test -count=1 %s" % (GO, " ".join(pkgs)), timeout=5400)
        res["existing_tests_cmd"] = "go test -count=1 " + " ".join(pkgs)
        res["existing_tests_pass"] = rc == 0
        res["existing_tests_s"] = int(time.time() - t0)
        if rc != 0:
            res["existing_tests_tail"] = out[-2500:]
    rc, out = sh(demo_cmd)
    res["demo_with_patch_rc"] = rc
    res["demo_with_patch_tail"] = out[-600:]
    # keep the patch, drop the demo file(s) before running our check
    sh("git clean -fdq")
    t0 = time.time()
    rc, out = sh("VERIF_REPO=%s ./vcheck %s --tier %s" % (WT, prop, tier), cwd=V, timeout=7200)
    res["vcheck_rc"] = rc
    res["vcheck_s"] = int(time.time() - t0)
    res["vcheck_keys"] = re.findall(r"leg=(\S+) key=(.*)", out)[:8]
    res["vcheck_summary"] = [l for l in out.splitlines() if l.startswith("[vcheck] C")][-1:] + [l[:300] for l in out.splitlines() if l.startswith("ENGINE-ERROR")][:3]
    res["caught"] = rc == 1 and "VIOLATION property=%s" % prop in out
    reset()
    ok = res.get("patch_applies") and res.get("builds") and res.get("demo_without_patch_rc") == 0 and res.get("demo_with_patch_rc") != 0 and (res.get("existing_tests_pass") or not run_tests) and not res["test_file_in_patch"]
    res["confirmed"] = bool(ok)
    if ok:
        name = "%s-%s" % (prop, re.sub(r"[^a-z0-9]+", "-", os.path.basename(os.path.dirname(d)).lower()))
        dst = os.path.join(V, "seeded", name)
        os.makedirs(dst, exist_ok=True)
        shutil.copy(os.path.join(d, "patch.diff"), dst)
        for f in os.listdir(d):
            if f.startswith("demo"):
                shutil.copy(os.path.join(d, f), dst)
        m2 = dict(meta)
        m2["verification_by_coordinator"] = {k: res[k] for k in res if k not in ("demo_with_patch_tail",)}
        m2["caught_by_check"] = res["caught"]
        json.dump(m2, open(os.path.join(dst, "meta.json"), "w"), indent=1)
    print(json.dumps(res, indent=1))
    return 0

if __name__ == "__main__":
    sys.exit(main())
