#!/opt/veriftools/pyvenv/bin/python3
import json, jsonschema, glob, sys
jsonschema.validate(json.load(open('/verif/MANIFEST.json')), json.load(open('/root/.vp/MANIFEST.schema.json')))
m = json.load(open('/verif/MANIFEST.json'))
es = json.load(open('/root/.vp/EVIDENCE.schema.json'))
bad = 0
for c in m['checks']:
    try:
        e = json.load(open(c['evidence_file']))
        jsonschema.validate(e, es)
        if e['level'] != c['level_claimed']['category']:
            print('LEVEL MISMATCH', c['property_id'], e['level'], c['level_claimed']['category']); bad += 1
    except Exception as ex:
        print('BAD', c['property_id'], str(ex)[:300]); bad += 1
print('manifest ok; checks=%d bad_evidence=%d' % (len(m['checks']), bad))
sys.exit(1 if bad else 0)
