#!/usr/bin/env python3
"""regenerates the seeded-changes header count, the sixth-round paragraph and the table in DESIGN.md from /verif/seeded"""
import re,glob,json,os,subprocess
V=os.path.dirname(os.path.dirname(os.path.abspath(__file__))); os.chdir(V)
NOTE={
"C06":"C06 (legacy gzip decompressor unbounded only when a pooled reader is *reused*) — the `doWithMaxSize` session sequences",
"C07":"C07 (`+10S`/`-0m` accepted) — the full header-string enumeration",
"C08":"C08 (DEL emitted raw only on the fast path) — all byte strings up to length 3",
"C09":"C09 (values added with `AppendToOutgoingContext` no longer validated) — the metadata source × value enumeration",
"C10":"C10 (DEL raw in grpc-message, seen as a status change end to end) — the status round-trip enumeration",
"C21":"C21 (server send limit applied before compression) — the e2e limits leg with compression on both sides of the limit",
"C26":"C26 (first-slash vs last-slash split) — registered names containing `/`",
"C28":"C28 (`ValueFromOutgoingContext` aliasing a base slice with spare capacity) — the context-branch aliasing oracle",
"C29":"C29 (re-check of the call count moved before `idleMu`) — the idle-manager schedule exploration",
"C30":"C30 (`UpdateAddresses` during CONNECTING publishes a stale TRANSIENT_FAILURE) — the stub-LB event histories",
"C37":"C37 (random-hash pick no longer wraps around the ring) — ring × state × hash enumeration",
"C45":"C45 (zero-weight locality counted for priority contiguity) — the EDS resource enumeration",
"C46":"C46 (uniform fast path taken when only the last two weights are equal) — all draws of the real WRR against exact proportions",
"C47":"C47 (range matcher parses base 0: `010`, `0x10`) — header-value menu × matcher kinds",
"C48":"C48 (mixed-case header key kept) — policy × request enumeration",
"C49":"C49 (ANY source-type entries kept after a typed match across destination entries) — non-wildcard listener chain enumeration",
"C52":"C52 (1–3 bytes of the next length header dropped) — all cut points of the record stream",
"C55":"C55 (`grpc-trace-bin` charged against the limit) — the ledger oracle",
}
n6=[]
for f in sorted(glob.glob("seeded/*-out10[0-8]/meta.json")):
    m=json.load(open(f)); n6.append((m["property"], m.get("caught_by_check")))
total=len(glob.glob("seeded/*/meta.json"))
caught=sum(1 for _,c in n6 if c)
s=open("DESIGN.md").read()
s=re.sub(r"\d+ property-breaking changes are stored: \d+ written, in \w+ rounds \([^)]*\)",
 "%d property-breaking changes are stored: %d written, in six rounds (57 + 30 +\n28 + 28 + 12 + %d)"%(total,total-1,len(n6)), s, count=1)
para = ("**Sixth round (%d changes, for the properties that had the fewest stored changes; prompt: \"avoid the\n"
"obvious mutation, pick an error path, a boundary case, a rarely used option, a second call site\"):\n"
"%d caught at once by the quick tier, %d missed.** Nothing had to be strengthened. What reported them:\n%s.\n"
"All 18 delivered changes were re-verified and stored. (While nine sub-agents and up to nineteen re-verifications ran at once the\n"
"load average was above 150; one re-verification of the root package's tests (C21) failed in a\n"
"timing-dependent test and passed when repeated — noted in that change's meta.json.)\n\n") % (
 len(n6), caught, len(n6)-caught, ";\n".join(NOTE.get(p,p) for p,_ in n6))
s=re.sub(r"\*\*Sixth round.*?\n\n", "", s, flags=re.S)
s=s.replace("| seeded change | property | file(s) |", para+"| seeded change | property | file(s) |",1)
tab=subprocess.run(["tools/seeded_table.py"],capture_output=True,text=True).stdout
i=s.index("| seeded change | property | file(s) |")
j=re.search(r"\d+ changes, \d+ caught\n", s[i:]).end()+i
s=s[:i]+tab.rstrip("\n")+"\n"+s[j:]
open("DESIGN.md","w").write(s)
print(len(n6),caught,total)
