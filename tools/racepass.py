#!/usr/bin/env python3
"""usage: tools/racepass.py LEG...  — runs only the free-running -race pass of the given E1 legs"""
import sys, os, json, importlib.machinery, importlib.util
V = os.path.dirname(os.path.dirname(os.path.abspath(__file__)))
loader = importlib.machinery.SourceFileLoader('vcheck', os.path.join(V, 'vcheck'))
spec = importlib.util.spec_from_loader('vcheck', loader)
m = importlib.util.module_from_spec(spec)
loader.exec_module(m)
legs = m.load_legs()
work = '/var/tmp/verif-work/racepass-%d' % os.getpid()
os.makedirs(work, exist_ok=True)
for name in sys.argv[1:]:
    print(name, json.dumps(m.race_pass(legs[name], legs, work))[:1200])
import shutil; shutil.rmtree(work, ignore_errors=True)
