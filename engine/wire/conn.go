//go:build verif

// Package wire is the raw-peer kit of engine E4: in-memory connections that
// block durably inside a testing/synctest bubble, and scripted HTTP/2 peers
// built on an independent x/net/http2 Framer + hpack codec that log every
// frame they receive. Ledger oracles are computed over these logs, never from
// counters read out of the implementation under test.
package wire

import (
	"errors"
	"io"
	"net"
	"os"
	"sync"
	"time"
)

// half is one direction of a buffered in-memory connection.
type half struct {
	mu     sync.Mutex
	cond   *sync.Cond
	buf    []byte
	closed bool // writer closed: reader gets EOF after draining
	broken bool // reader closed: writer gets error
	rdl    time.Time
	timer  *time.Timer
	total  int64
}

func newHalf() *half {
	h := &half{}
	h.cond = sync.NewCond(&h.mu)
	return h
}

// Conn is a net.Conn over two halves. Writes never block (unbounded buffer);
// reads block on a sync.Cond, which is durable inside a bubble.
type Conn struct {
	r, w   *half
	name   string
	onByte func(n int) // called after each successful Read with the byte count
}

type addr string

func (a addr) Network() string { return "verifpipe" }
func (a addr) String() string  { return string(a) }

// Pipe returns the two ends of a buffered duplex connection.
func Pipe() (*Conn, *Conn) {
	a, b := newHalf(), newHalf()
	return &Conn{r: a, w: b, name: "client"}, &Conn{r: b, w: a, name: "server"}
}

func (c *Conn) Read(p []byte) (int, error) {
	h := c.r
	h.mu.Lock()
	defer h.mu.Unlock()
	for {
		if h.broken {
			return 0, io.ErrClosedPipe
		}
		if len(h.buf) > 0 {
			n := copy(p, h.buf)
			h.buf = h.buf[n:]
			return n, nil
		}
		if h.closed {
			return 0, io.EOF
		}
		if !h.rdl.IsZero() && !time.Now().Before(h.rdl) {
			return 0, os.ErrDeadlineExceeded
		}
		h.cond.Wait()
	}
}

func (c *Conn) Write(p []byte) (int, error) {
	h := c.w
	h.mu.Lock()
	defer h.mu.Unlock()
	if h.closed || h.broken {
		return 0, io.ErrClosedPipe
	}
	h.buf = append(h.buf, p...)
	h.total += int64(len(p))
	h.cond.Broadcast()
	return len(p), nil
}

// Close closes both directions.
func (c *Conn) Close() error {
	for _, h := range []*half{c.w} {
		h.mu.Lock()
		h.closed = true
		h.cond.Broadcast()
		h.mu.Unlock()
	}
	c.r.mu.Lock()
	c.r.broken = true
	if c.r.timer != nil {
		c.r.timer.Stop()
	}
	c.r.cond.Broadcast()
	c.r.mu.Unlock()
	return nil
}

// Pending returns the number of bytes written to this end's peer but not yet read by it.
func (c *Conn) Pending() int {
	c.w.mu.Lock()
	defer c.w.mu.Unlock()
	return len(c.w.buf)
}

func (c *Conn) LocalAddr() net.Addr  { return addr(c.name) }
func (c *Conn) RemoteAddr() net.Addr { return addr(c.name + "-peer") }

func (c *Conn) SetDeadline(t time.Time) error {
	c.SetReadDeadline(t)
	return nil
}

func (c *Conn) SetReadDeadline(t time.Time) error {
	h := c.r
	h.mu.Lock()
	defer h.mu.Unlock()
	h.rdl = t
	if h.timer != nil {
		h.timer.Stop()
		h.timer = nil
	}
	if !t.IsZero() {
		d := time.Until(t)
		if d < 0 {
			d = 0
		}
		h.timer = time.AfterFunc(d, func() {
			h.mu.Lock()
			h.cond.Broadcast()
			h.mu.Unlock()
		})
	}
	h.cond.Broadcast()
	return nil
}

func (c *Conn) SetWriteDeadline(time.Time) error { return nil }

// Listener is an in-memory net.Listener fed by Dial.
type Listener struct {
	mu     sync.Mutex
	cond   *sync.Cond
	q      []*Conn
	closed bool
}

func NewListener() *Listener {
	l := &Listener{}
	l.cond = sync.NewCond(&l.mu)
	return l
}

var errListenerClosed = errors.New("verif listener closed")

func (l *Listener) Accept() (net.Conn, error) {
	l.mu.Lock()
	defer l.mu.Unlock()
	for {
		if l.closed {
			return nil, errListenerClosed
		}
		if len(l.q) > 0 {
			c := l.q[0]
			l.q = l.q[1:]
			return c, nil
		}
		l.cond.Wait()
	}
}

func (l *Listener) Close() error {
	l.mu.Lock()
	l.closed = true
	l.cond.Broadcast()
	l.mu.Unlock()
	return nil
}

func (l *Listener) Addr() net.Addr { return addr("verif-listener") }

// Dial creates a connection whose server end is delivered to Accept.
func (l *Listener) Dial() (net.Conn, error) {
	c, s := Pipe()
	l.mu.Lock()
	defer l.mu.Unlock()
	if l.closed {
		return nil, errListenerClosed
	}
	l.q = append(l.q, s)
	l.cond.Broadcast()
	return c, nil
}
