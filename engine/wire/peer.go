//go:build verif

package wire

import (
	"bytes"
	"fmt"
	"io"
	"net"
	"sort"
	"strings"
	"sync"

	"golang.org/x/net/http2"
	"golang.org/x/net/http2/hpack"
)

// Frame is one decoded frame received by a raw peer.
type Frame struct {
	Type      string // DATA HEADERS CONTINUATION SETTINGS PING GOAWAY RST_STREAM WINDOW_UPDATE PRIORITY PUSH_PROMISE UNKNOWN
	Stream    uint32
	Len       int // payload length on the wire (for HEADERS/CONTINUATION: fragment length)
	EndStream bool
	EndHdrs   bool
	Ack       bool
	Data      []byte      // DATA payload (padding stripped), PING data, GOAWAY debug
	Fields    [][2]string // decoded header fields (complete block, attached to the frame carrying END_HEADERS)
	Code      uint32      // RST / GOAWAY error code
	LastID    uint32      // GOAWAY
	Incr      uint32      // WINDOW_UPDATE
	Settings  map[http2.SettingID]uint32
	Seq       int
}

func (f Frame) String() string {
	switch f.Type {
	case "DATA":
		return fmt.Sprintf("DATA(s%d,len=%d,es=%v)", f.Stream, f.Len, f.EndStream)
	case "HEADERS":
		return fmt.Sprintf("HEADERS(s%d,len=%d,es=%v,eh=%v)", f.Stream, f.Len, f.EndStream, f.EndHdrs)
	case "CONTINUATION":
		return fmt.Sprintf("CONT(s%d,len=%d,eh=%v)", f.Stream, f.Len, f.EndHdrs)
	case "SETTINGS":
		if f.Ack {
			return "SETTINGS(ack)"
		}
		var ks []string
		for k, v := range f.Settings {
			ks = append(ks, fmt.Sprintf("%d=%d", k, v))
		}
		sort.Strings(ks)
		return "SETTINGS(" + strings.Join(ks, ",") + ")"
	case "PING":
		return fmt.Sprintf("PING(ack=%v)", f.Ack)
	case "GOAWAY":
		return fmt.Sprintf("GOAWAY(last=%d,code=%d,%q)", f.LastID, f.Code, f.Data)
	case "RST_STREAM":
		return fmt.Sprintf("RST(s%d,code=%d)", f.Stream, f.Code)
	case "WINDOW_UPDATE":
		return fmt.Sprintf("WU(s%d,+%d)", f.Stream, f.Incr)
	}
	return fmt.Sprintf("%s(s%d)", f.Type, f.Stream)
}

// Peer is a scripted HTTP/2 endpoint.
type Peer struct {
	Conn   net.Conn
	Fr     *http2.Framer
	enc    *hpack.Encoder
	encBuf bytes.Buffer
	wmu    sync.Mutex

	mu              sync.Mutex
	log             []Frame
	ReadErr         error // terminal error of the reader (io.EOF on close)
	readDone        chan struct{}
	hdec            *hpack.Decoder
	hfields         [][2]string
	AutoAckSettings bool
	AutoAckPing     bool
	gotPreface      bool
}

// NewServerPeer wraps the server end of a connection to a real gRPC client:
// it expects the client preface, then reads frames forever. The caller decides
// what (if anything) to send; AutoAck* answer SETTINGS/PING like a polite peer.
func NewServerPeer(c net.Conn) *Peer {
	p := newPeer(c)
	go p.readLoop(true)
	return p
}

// NewClientPeer wraps the client end of a connection to a real gRPC server; it
// writes the client preface immediately.
func NewClientPeer(c net.Conn) *Peer {
	p := newPeer(c)
	p.wmu.Lock()
	io.WriteString(c, http2.ClientPreface)
	p.wmu.Unlock()
	go p.readLoop(false)
	return p
}

func newPeer(c net.Conn) *Peer {
	p := &Peer{Conn: c, readDone: make(chan struct{})}
	p.Fr = http2.NewFramer(c, c)
	p.Fr.SetMaxReadFrameSize(1 << 24)
	p.Fr.AllowIllegalWrites = true
	p.Fr.AllowIllegalReads = true
	p.enc = hpack.NewEncoder(&p.encBuf)
	p.hdec = hpack.NewDecoder(4096, func(f hpack.HeaderField) { p.hfields = append(p.hfields, [2]string{f.Name, f.Value}) })
	return p
}

func (p *Peer) readLoop(expectPreface bool) {
	defer close(p.readDone)
	if expectPreface {
		buf := make([]byte, len(http2.ClientPreface))
		if _, err := io.ReadFull(p.Conn, buf); err != nil {
			p.setErr(err)
			return
		}
		if string(buf) != http2.ClientPreface {
			p.setErr(fmt.Errorf("bad client preface %q", buf))
			return
		}
		p.mu.Lock()
		p.gotPreface = true
		p.mu.Unlock()
	}
	for {
		f, err := p.Fr.ReadFrame()
		if err != nil {
			p.setErr(err)
			return
		}
		fr := Frame{Stream: f.Header().StreamID, Len: int(f.Header().Length)}
		switch f := f.(type) {
		case *http2.DataFrame:
			fr.Type, fr.EndStream = "DATA", f.StreamEnded()
			fr.Data = append([]byte(nil), f.Data()...)
		case *http2.HeadersFrame:
			fr.Type, fr.EndStream, fr.EndHdrs = "HEADERS", f.StreamEnded(), f.HeadersEnded()
			fr.Len = len(f.HeaderBlockFragment())
			p.hdec.Write(f.HeaderBlockFragment())
			if fr.EndHdrs {
				fr.Fields, p.hfields = p.hfields, nil
			}
		case *http2.ContinuationFrame:
			fr.Type, fr.EndHdrs = "CONTINUATION", f.HeadersEnded()
			fr.Len = len(f.HeaderBlockFragment())
			p.hdec.Write(f.HeaderBlockFragment())
			if fr.EndHdrs {
				fr.Fields, p.hfields = p.hfields, nil
			}
		case *http2.SettingsFrame:
			fr.Type, fr.Ack = "SETTINGS", f.IsAck()
			fr.Settings = map[http2.SettingID]uint32{}
			f.ForeachSetting(func(s http2.Setting) error { fr.Settings[s.ID] = s.Val; return nil })
			if !fr.Ack && p.AutoAckSettings {
				p.wmu.Lock()
				p.Fr.WriteSettingsAck()
				p.wmu.Unlock()
			}
		case *http2.PingFrame:
			fr.Type, fr.Ack = "PING", f.IsAck()
			fr.Data = append([]byte(nil), f.Data[:]...)
			if !fr.Ack && p.AutoAckPing {
				p.wmu.Lock()
				p.Fr.WritePing(true, f.Data)
				p.wmu.Unlock()
			}
		case *http2.GoAwayFrame:
			fr.Type, fr.LastID, fr.Code = "GOAWAY", f.LastStreamID, uint32(f.ErrCode)
			fr.Data = append([]byte(nil), f.DebugData()...)
		case *http2.RSTStreamFrame:
			fr.Type, fr.Code = "RST_STREAM", uint32(f.ErrCode)
		case *http2.WindowUpdateFrame:
			fr.Type, fr.Incr = "WINDOW_UPDATE", f.Increment
		case *http2.PriorityFrame:
			fr.Type = "PRIORITY"
		case *http2.PushPromiseFrame:
			fr.Type = "PUSH_PROMISE"
		default:
			fr.Type = "UNKNOWN"
		}
		p.mu.Lock()
		fr.Seq = len(p.log)
		p.log = append(p.log, fr)
		p.mu.Unlock()
	}
}

func (p *Peer) setErr(err error) {
	p.mu.Lock()
	p.ReadErr = err
	p.mu.Unlock()
}

// Log returns a copy of all frames received so far.
func (p *Peer) Log() []Frame {
	p.mu.Lock()
	defer p.mu.Unlock()
	return append([]Frame(nil), p.log...)
}

// LogString renders the frame log compactly.
func (p *Peer) LogString() string {
	var sb strings.Builder
	for _, f := range p.Log() {
		sb.WriteString(f.String())
		sb.WriteByte(' ')
	}
	return sb.String()
}

// Err returns the reader's terminal error, if any.
func (p *Peer) Err() error {
	p.mu.Lock()
	defer p.mu.Unlock()
	return p.ReadErr
}

// Closed reports whether the other side closed (or broke) the connection.
func (p *Peer) Closed() bool { return p.Err() != nil }

// GotPreface reports whether the client preface was received (server peers).
func (p *Peer) GotPreface() bool {
	p.mu.Lock()
	defer p.mu.Unlock()
	return p.gotPreface
}

// Close closes the connection.
func (p *Peer) Close() { p.Conn.Close() }

// W runs f with the write lock held (for direct Framer use).
func (p *Peer) W(f func(fr *http2.Framer) error) error {
	p.wmu.Lock()
	defer p.wmu.Unlock()
	return f(p.Fr)
}

// Encode hpack-encodes header fields.
func (p *Peer) Encode(fields [][2]string) []byte {
	p.encBuf.Reset()
	for _, f := range fields {
		p.enc.WriteField(hpack.HeaderField{Name: f[0], Value: f[1]})
	}
	return append([]byte(nil), p.encBuf.Bytes()...)
}

func (p *Peer) WriteSettings(s ...http2.Setting) error {
	return p.W(func(fr *http2.Framer) error { return fr.WriteSettings(s...) })
}
func (p *Peer) WriteSettingsAck() error {
	return p.W(func(fr *http2.Framer) error { return fr.WriteSettingsAck() })
}
func (p *Peer) WriteHeaders(stream uint32, fields [][2]string, endStream bool) error {
	blk := p.Encode(fields)
	return p.W(func(fr *http2.Framer) error {
		return fr.WriteHeaders(http2.HeadersFrameParam{StreamID: stream, BlockFragment: blk, EndStream: endStream, EndHeaders: true})
	})
}
func (p *Peer) WriteData(stream uint32, endStream bool, data []byte) error {
	return p.W(func(fr *http2.Framer) error { return fr.WriteData(stream, endStream, data) })
}
func (p *Peer) WriteDataPadded(stream uint32, endStream bool, data, pad []byte) error {
	return p.W(func(fr *http2.Framer) error { return fr.WriteDataPadded(stream, endStream, data, pad) })
}
func (p *Peer) WriteRST(stream uint32, code http2.ErrCode) error {
	return p.W(func(fr *http2.Framer) error { return fr.WriteRSTStream(stream, code) })
}
func (p *Peer) WriteGoAway(last uint32, code http2.ErrCode, debug []byte) error {
	return p.W(func(fr *http2.Framer) error { return fr.WriteGoAway(last, code, debug) })
}
func (p *Peer) WritePing(ack bool, data [8]byte) error {
	return p.W(func(fr *http2.Framer) error { return fr.WritePing(ack, data) })
}
func (p *Peer) WriteWindowUpdate(stream, incr uint32) error {
	return p.W(func(fr *http2.Framer) error { return fr.WriteWindowUpdate(stream, incr) })
}
func (p *Peer) WriteRaw(b []byte) error {
	p.wmu.Lock()
	defer p.wmu.Unlock()
	_, err := p.Conn.Write(b)
	return err
}

// GrpcMsg frames a gRPC message (5-byte prefix).
func GrpcMsg(compressed bool, payload []byte) []byte {
	b := make([]byte, 5+len(payload))
	if compressed {
		b[0] = 1
	}
	b[1], b[2], b[3], b[4] = byte(len(payload)>>24), byte(len(payload)>>16), byte(len(payload)>>8), byte(len(payload))
	copy(b[5:], payload)
	return b
}

// Field looks up the first value of a header field in a decoded block.
func Field(fields [][2]string, name string) (string, bool) {
	for _, f := range fields {
		if f[0] == name {
			return f[1], true
		}
	}
	return "", false
}
