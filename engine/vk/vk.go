//go:build verif

// Package vk is the verification kit shared by every injected harness: it
// reads the tier/seed/shard environment, counts what an exploration covered,
// records violations with replay artefacts and writes one result file per
// (leg, shard) that the driver (/verif/vcheck) merges into
// /verif/evidence/<ID>.json.
//
// It is injected as google.golang.org/grpc/internal/verif/vk by go's -overlay.
package vk

import (
	"encoding/json"
	"fmt"
	"hash/fnv"
	"os"
	"sort"
	"strconv"
	"strings"
	"sync"
	"testing"
	"time"
)

// Violation is one counterexample. Key is the canonical, narrow identity of the
// failing case (matched against /verif/known_findings.json by the driver).
type Violation struct {
	Property string `json:"property"`
	Key      string `json:"key"`
	Desc     string `json:"desc"`
	Replay   any    `json:"replay"`
}

// Result is what one leg/shard writes for the driver.
type Result struct {
	Leg        string                   `json:"leg"`
	Shard      int                      `json:"shard"`
	NShards    int                      `json:"nshards"`
	Tier       string                   `json:"tier"`
	Seed       int64                    `json:"seed"`
	Props      map[string]*PropCoverage `json:"props"`
	Violations []Violation              `json:"violations"`
	EngineErrs []string                 `json:"engine_errors"`
	WallS      float64                  `json:"wall_s"`
	Complete   bool                     `json:"complete"`
}

// PropCoverage holds the measured counts for one property inside one leg.
type PropCoverage struct {
	Level       string           `json:"level"`
	Evaluations int64            `json:"evaluations"`
	Nontrivial  int64            `json:"distinct_nontrivial"`
	States      int64            `json:"states"`
	Transitions int64            `json:"transitions"`
	TracesImpl  int64            `json:"traces_validated_against_impl"`
	Rule        string           `json:"rule"`
	Samples     []any            `json:"samples"`
	Exhaustive  bool             `json:"exhaustive"`
	Caps        []string         `json:"caps_hit"`
	Outcomes    map[string]int64 `json:"outcomes"`
	Extra       map[string]any   `json:"extra"`
	Assumptions []string         `json:"assumptions"`
	nontrivKeys map[uint64]struct{}
}

// Run is the per-test handle.
type Run struct {
	T       *testing.T
	Leg     string
	tier    string
	seed    int64
	shard   int
	nshards int
	start   time.Time
	budget  time.Duration
	replay  string

	mu   sync.Mutex
	res  Result
	done bool
}

func envInt(name string, def int) int {
	if v := os.Getenv(name); v != "" {
		if n, err := strconv.Atoi(v); err == nil {
			return n
		}
	}
	return def
}

// Start begins a leg. props lists the property ids this leg contributes to and
// level is their default evidence level ("exploration", "model_checking",
// "fault_enumeration").
func Start(t *testing.T, leg string, level string, props ...string) *Run {
	r := &Run{T: t, Leg: leg, start: time.Now()}
	r.tier = os.Getenv("VERIF_TIER")
	if r.tier == "" {
		r.tier = "quick"
	}
	if s := os.Getenv("VERIF_SEED"); s != "" {
		r.seed, _ = strconv.ParseInt(s, 10, 64)
	}
	r.shard = envInt("VERIF_SHARD", 0)
	r.nshards = envInt("VERIF_NSHARDS", 1)
	r.budget = time.Duration(envInt("VERIF_BUDGET_S", 0)) * time.Second
	r.replay = os.Getenv("VERIF_REPLAY")
	r.res = Result{Leg: leg, Shard: r.shard, NShards: r.nshards, Tier: r.tier, Seed: r.seed, Props: map[string]*PropCoverage{}, Complete: false}
	for _, p := range props {
		r.res.Props[p] = &PropCoverage{Level: level, Exhaustive: true, Outcomes: map[string]int64{}, Extra: map[string]any{}, nontrivKeys: map[uint64]struct{}{}}
	}
	return r
}

func (r *Run) Tier() string      { return r.tier }
func (r *Run) Quick() bool       { return r.tier != "thorough" }
func (r *Run) Thorough() bool    { return r.tier == "thorough" }
func (r *Run) Seed() int64       { return r.seed }
func (r *Run) Shard() (int, int) { return r.shard, r.nshards }

// ReplayFile returns the path of a replay artefact to re-run, or "".
func (r *Run) ReplayFile() string { return r.replay }

// Pick returns q in the quick tier and th in the thorough tier.
func (r *Run) Pick(q, th int) int {
	if r.Thorough() {
		return th
	}
	return q
}

// Mine reports whether work item i belongs to this shard.
func (r *Run) Mine(i int) bool { return r.nshards <= 1 || i%r.nshards == r.shard }

// OverBudget reports whether the leg's soft time budget (VERIF_BUDGET_S, set by
// the driver) is used up. A harness that stops because of it must call Cap.
func (r *Run) OverBudget() bool {
	return r.budget > 0 && time.Since(r.start) > r.budget
}

// Budget returns the leg's soft time budget (0 = none).
func (r *Run) Budget() time.Duration { return r.budget }

func (r *Run) p(prop string) *PropCoverage {
	pc := r.res.Props[prop]
	if pc == nil {
		panic("vk: property " + prop + " not declared in Start")
	}
	return pc
}

// Eval counts n evaluated cases for prop.
func (r *Run) Eval(prop string, n int64) {
	r.mu.Lock()
	r.p(prop).Evaluations += n
	r.mu.Unlock()
}

// Nontrivial records a case that is non-trivial by the leg's stated rule; key
// identifies the case so that only DISTINCT ones are counted.
func (r *Run) Nontrivial(prop string, key string) {
	h := fnv.New64a()
	h.Write([]byte(key))
	k := h.Sum64()
	r.mu.Lock()
	r.p(prop).nontrivKeys[k] = struct{}{}
	r.mu.Unlock()
}

// NontrivialN adds n distinct non-trivial cases counted by the harness itself
// (the harness guarantees they are distinct from each other and from keys
// given to Nontrivial).
func (r *Run) NontrivialN(prop string, n int64) {
	r.mu.Lock()
	r.p(prop).Nontrivial += n
	r.mu.Unlock()
}

// Outcome tallies a distinct observed outcome class (vacuity guard).
func (r *Run) Outcome(prop string, o string) {
	r.mu.Lock()
	r.p(prop).Outcomes[o]++
	r.mu.Unlock()
}

// States/Transitions/Traces add model-checking counters.
func (r *Run) States(prop string, n int64) { r.mu.Lock(); r.p(prop).States += n; r.mu.Unlock() }
func (r *Run) Transitions(prop string, n int64) {
	r.mu.Lock()
	r.p(prop).Transitions += n
	r.mu.Unlock()
}
func (r *Run) Traces(prop string, n int64) { r.mu.Lock(); r.p(prop).TracesImpl += n; r.mu.Unlock() }

// Rule sets the enumeration / non-triviality rule text.
func (r *Run) Rule(prop string, rule string) { r.mu.Lock(); r.p(prop).Rule = rule; r.mu.Unlock() }

// Level overrides the evidence level for prop.
func (r *Run) Level(prop string, level string) { r.mu.Lock(); r.p(prop).Level = level; r.mu.Unlock() }

// Assume records an assumption / trusted-base sentence.
func (r *Run) Assume(prop string, s string) {
	r.mu.Lock()
	r.p(prop).Assumptions = append(r.p(prop).Assumptions, s)
	r.mu.Unlock()
}

// Sample keeps up to 6 written-out cases per property.
func (r *Run) Sample(prop string, x any) {
	r.mu.Lock()
	pc := r.p(prop)
	if len(pc.Samples) < 6 {
		pc.Samples = append(pc.Samples, x)
	}
	r.mu.Unlock()
}

// Set stores an extra measured key in coverage.
func (r *Run) Set(prop string, k string, v any) { r.mu.Lock(); r.p(prop).Extra[k] = v; r.mu.Unlock() }

// AddInt adds to an extra integer counter.
func (r *Run) AddInt(prop string, k string, n int64) {
	r.mu.Lock()
	pc := r.p(prop)
	cur, _ := pc.Extra[k].(int64)
	pc.Extra[k] = cur + n
	r.mu.Unlock()
}

// Cap records that a cap was hit: the run is then not exhaustive.
func (r *Run) Cap(prop string, what string) {
	r.mu.Lock()
	pc := r.p(prop)
	pc.Exhaustive = false
	for _, c := range pc.Caps {
		if c == what {
			r.mu.Unlock()
			return
		}
	}
	pc.Caps = append(pc.Caps, what)
	r.mu.Unlock()
}

// Violation records a counterexample (at most 20 distinct keys per property are
// kept) and flushes the result file immediately so it survives a later crash.
func (r *Run) Violation(prop, key, desc string, replay any) {
	r.mu.Lock()
	n := 0
	for _, v := range r.res.Violations {
		if v.Property == prop {
			n++
			if v.Key == key {
				r.mu.Unlock()
				return
			}
		}
	}
	if n < 20 {
		r.res.Violations = append(r.res.Violations, Violation{Property: prop, Key: key, Desc: desc, Replay: replay})
	}
	r.mu.Unlock()
	r.flush(false)
}

// NViolations returns how many violations were recorded for prop so far.
func (r *Run) NViolations(prop string) int {
	r.mu.Lock()
	defer r.mu.Unlock()
	n := 0
	for _, v := range r.res.Violations {
		if v.Property == prop {
			n++
		}
	}
	return n
}

// EngineError records an infrastructure failure (never a verdict).
func (r *Run) EngineError(format string, a ...any) {
	r.mu.Lock()
	r.res.EngineErrs = append(r.res.EngineErrs, fmt.Sprintf(format, a...))
	r.mu.Unlock()
	r.flush(false)
}

// RequireOutcomes is the vacuity guard: the leg fails as ENGINE-ERROR unless at
// least min distinct outcome classes were observed for prop (only checked on
// shard 0 of 1, or when the harness says the guard is shard-independent).
func (r *Run) RequireOutcomes(prop string, min int) {
	r.mu.Lock()
	n := len(r.p(prop).Outcomes)
	r.mu.Unlock()
	if n < min {
		r.EngineError("vacuous exploration for %s: %d distinct outcomes < %d", prop, n, min)
	}
}

func (r *Run) flush(complete bool) {
	r.mu.Lock()
	defer r.mu.Unlock()
	dir := os.Getenv("VERIF_OUT")
	if dir == "" {
		return
	}
	for _, pc := range r.res.Props {
		if n := int64(len(pc.nontrivKeys)); n > 0 {
			// hashed keys + harness-counted ones are disjoint by contract
			pc.Extra["nontrivial_keyed"] = n
		}
	}
	r.res.WallS = time.Since(r.start).Seconds()
	r.res.Complete = complete
	out := r.res
	// fold keyed non-trivial counts in a copy
	props := map[string]*PropCoverage{}
	for k, pc := range r.res.Props {
		c := *pc
		c.Nontrivial += int64(len(pc.nontrivKeys))
		props[k] = &c
	}
	out.Props = props
	b, err := json.MarshalIndent(out, "", " ")
	if err != nil {
		b, _ = json.Marshal(map[string]any{"leg": r.Leg, "engine_errors": []string{"marshal: " + err.Error()}})
	}
	name := fmt.Sprintf("%s/%s.%d.result.json", dir, r.Leg, r.shard)
	tmp := name + ".tmp"
	if err := os.WriteFile(tmp, b, 0o644); err == nil {
		os.Rename(tmp, name)
	}
}

// Finish writes the final result. It never fails the Go test because of
// violations: verdicts are the driver's job.
func (r *Run) Finish() {
	r.flush(true)
	r.mu.Lock()
	defer r.mu.Unlock()
	var sb strings.Builder
	keys := make([]string, 0, len(r.res.Props))
	for k := range r.res.Props {
		keys = append(keys, k)
	}
	sort.Strings(keys)
	for _, k := range keys {
		pc := r.res.Props[k]
		fmt.Fprintf(&sb, "[vk] leg=%s prop=%s evals=%d nontrivial=%d states=%d trans=%d outcomes=%d exhaustive=%v\n", r.Leg, k, pc.Evaluations, pc.Nontrivial+int64(len(pc.nontrivKeys)), pc.States, pc.Transitions, len(pc.Outcomes), pc.Exhaustive)
	}
	fmt.Fprintf(&sb, "[vk] leg=%s violations=%d engine_errors=%d wall=%.1fs\n", r.Leg, len(r.res.Violations), len(r.res.EngineErrs), time.Since(r.start).Seconds())
	os.Stdout.WriteString(sb.String())
}

// LoadReplay decodes the replay artefact (the "replay" member of the file the
// driver wrote) into v.
func (r *Run) LoadReplay(v any) error {
	b, err := os.ReadFile(r.replay)
	if err != nil {
		return err
	}
	var wrap struct {
		Replay json.RawMessage `json:"replay"`
	}
	if err := json.Unmarshal(b, &wrap); err != nil {
		return err
	}
	return json.Unmarshal(wrap.Replay, v)
}
