//go:build verif

// Package seqx is engine E2: explicit-state breadth-first exploration of
// operation/event sequences applied to FRESH REAL objects. A state is the
// shortest history reaching it; a successor is built by re-running the history
// plus one more operation on a new instance (real objects cannot be cloned).
// States are deduplicated by a canonical key the harness computes from the
// property-relevant private fields plus its reference model's state.
package seqx

import (
	"fmt"
	"runtime"
	"sort"
	"strings"
	"sync"

	"google.golang.org/grpc/internal/verif/vk"
)

// Fail is one oracle failure observed while running a history.
type Fail struct {
	Prop string
	Key  string // short class of the failure, e.g. "window-exceeded"
	Desc string
}

// Outcome is what running one history produced.
type Outcome struct {
	Key      string // canonical state key after the last operation
	Skip     bool   // the last operation is not applicable in that state (pruned, not a transition)
	Terminal bool   // do not extend this state
	Fails    []Fail
	Obs      string // optional observable outcome class (vacuity statistics)
}

// Config describes one exploration.
type Config struct {
	Name      string
	Ops       []string // alphabet, simplest first (names are used in reports and replays)
	MaxDepth  int
	MaxStates int64 // 0 = unlimited; hitting it clears "exhaustive"
	// Run applies hist (indices into Ops) to a fresh real object and checks the
	// oracle after every step (at least after the last one).
	Run func(hist []int) Outcome
	// Parallel > 1 runs histories of one BFS level on that many goroutines (Run
	// must then be safe for concurrent use: no package-level state).
	Parallel int
	// Congruence, when set, re-checks key soundness: for up to CongruenceMax
	// histories that were merged into an existing state, all single-step
	// extensions must produce the same successor keys as the representative's.
	Congruence    bool
	CongruenceMax int
	MinStates     int64 // vacuity guard
}

type replayRec struct {
	Scenario string   `json:"scenario"`
	Ops      []string `json:"ops"`
}

func names(cfg *Config, hist []int) []string {
	out := make([]string, len(hist))
	for i, h := range hist {
		out[i] = cfg.Ops[h]
	}
	return out
}

// BFS explores cfg and reports into r for every property in props.
func BFS(r *vk.Run, props []string, cfg Config) {
	if f := r.ReplayFile(); f != "" {
		var rp replayRec
		if err := r.LoadReplay(&rp); err != nil {
			r.EngineError("replay: %v", err)
			return
		}
		if rp.Scenario != cfg.Name {
			return
		}
		idx := map[string]int{}
		for i, o := range cfg.Ops {
			idx[o] = i
		}
		var hist []int
		for _, o := range rp.Ops {
			i, ok := idx[o]
			if !ok {
				r.EngineError("replay: unknown op %q", o)
				return
			}
			hist = append(hist, i)
		}
		out := cfg.Run(hist)
		fmt.Printf("replay scenario=%s ops=%v key=%s\n", cfg.Name, rp.Ops, out.Key)
		for _, p := range props {
			r.Eval(p, 1)
		}
		for _, f := range out.Fails {
			fmt.Printf("FAIL %s %s: %s\n", f.Prop, f.Key, f.Desc)
			r.Violation(f.Prop, cfg.Name+"/"+f.Key+"/"+strings.Join(rp.Ops, ","), f.Desc, rp)
		}
		return
	}
	par := cfg.Parallel
	if par < 1 {
		par = 1
	}
	if par > runtime.GOMAXPROCS(0) {
		par = runtime.GOMAXPROCS(0)
	}
	type node struct{ hist []int }
	root := cfg.Run(nil)
	seen := map[string][]int{root.Key: nil}
	frontier := []node{{nil}}
	var states, transitions, skipped, merged int64 = 1, 0, 0, 0
	obs := map[string]int64{}
	failSeen := map[string]bool{}
	report := func(hist []int, o Outcome) {
		for _, f := range o.Fails {
			k := f.Prop + "/" + f.Key
			if failSeen[k] {
				continue // one (shortest) counterexample per failure class
			}
			failSeen[k] = true
			ops := names(&cfg, hist)
			// confirm determinism of the failure
			again := cfg.Run(hist)
			ok := false
			for _, g := range again.Fails {
				if g.Prop == f.Prop && g.Key == f.Key {
					ok = true
				}
			}
			if !ok {
				r.EngineError("scenario %s: failure %s on %v did not reproduce", cfg.Name, f.Key, ops)
				continue
			}
			r.Violation(f.Prop, cfg.Name+"/"+f.Key+"/"+strings.Join(ops, ","), f.Desc+"\n  history: "+strings.Join(ops, " ; "), replayRec{Scenario: cfg.Name, Ops: ops})
		}
	}
	report(nil, root)
	capped := ""
	maxDepth := 0
	congrChecked, congrBad := 0, 0
	type job struct {
		hist []int
		out  Outcome
	}
	for depth := 1; depth <= cfg.MaxDepth && len(frontier) > 0 && capped == ""; depth++ {
		// build all jobs of this level
		jobs := make([]job, 0, len(frontier)*len(cfg.Ops))
		for _, n := range frontier {
			for op := range cfg.Ops {
				h := make([]int, len(n.hist)+1)
				copy(h, n.hist)
				h[len(n.hist)] = op
				jobs = append(jobs, job{hist: h})
			}
		}
		if par == 1 {
			for i := range jobs {
				jobs[i].out = cfg.Run(jobs[i].hist)
				if i%256 == 0 && r.OverBudget() {
					capped = fmt.Sprintf("time budget hit at depth %d", depth)
					jobs = jobs[:i+1]
					break
				}
			}
		} else {
			var wg sync.WaitGroup
			ch := make(chan int, 1024)
			for w := 0; w < par; w++ {
				wg.Add(1)
				go func() {
					defer wg.Done()
					for i := range ch {
						jobs[i].out = cfg.Run(jobs[i].hist)
					}
				}()
			}
			n := len(jobs)
			for i := 0; i < n; i++ {
				if i%1024 == 0 && r.OverBudget() {
					capped = fmt.Sprintf("time budget hit at depth %d", depth)
					n = i
					break
				}
				ch <- i
			}
			close(ch)
			wg.Wait()
			jobs = jobs[:n]
		}
		var next []node
		for _, j := range jobs {
			if j.out.Skip {
				skipped++
				continue
			}
			transitions++
			if j.out.Obs != "" {
				obs[j.out.Obs]++
			}
			report(j.hist, j.out)
			if rep, dup := seen[j.out.Key]; dup {
				merged++
				if cfg.Congruence && congrChecked < cfg.CongruenceMax && depth < cfg.MaxDepth && !j.out.Terminal {
					congrChecked++
					for op := range cfg.Ops {
						a := cfg.Run(append(append([]int{}, j.hist...), op))
						b := cfg.Run(append(append([]int{}, rep...), op))
						if a.Skip != b.Skip || (!a.Skip && a.Key != b.Key) {
							congrBad++
							r.EngineError("scenario %s: state key is not a congruence: %v and %v share key %q but op %s leads to %q vs %q", cfg.Name, names(&cfg, j.hist), names(&cfg, rep), j.out.Key, cfg.Ops[op], a.Key, b.Key)
							break
						}
					}
				}
				continue
			}
			seen[j.out.Key] = j.hist
			states++
			maxDepth = depth
			if !j.out.Terminal {
				next = append(next, node{j.hist})
			}
			if cfg.MaxStates > 0 && states >= cfg.MaxStates {
				capped = fmt.Sprintf("state cap %d hit at depth %d", cfg.MaxStates, depth)
				break
			}
		}
		frontier = next
	}
	fullyExplored := len(frontier) == 0 && capped == ""
	// samples: a few deepest histories
	var sample [][]string
	ks := make([]string, 0, len(seen))
	for k := range seen {
		ks = append(ks, k)
	}
	sort.Slice(ks, func(i, j int) bool {
		return len(seen[ks[i]]) > len(seen[ks[j]]) || (len(seen[ks[i]]) == len(seen[ks[j]]) && ks[i] < ks[j])
	})
	for i := 0; i < len(ks) && i < 2; i++ {
		sample = append(sample, names(&cfg, seen[ks[i]]))
	}
	for _, p := range props {
		r.States(p, states)
		r.Transitions(p, transitions)
		r.Traces(p, transitions+1) // every transition is an execution of the real code
		r.Eval(p, transitions+1)
		r.NontrivialN(p, states)
		for o := range obs {
			r.Outcome(p, cfg.Name+":"+o)
		}
		r.Set(p, "scenario/"+cfg.Name, map[string]any{"states": states, "transitions": transitions, "merged_duplicates": merged, "inapplicable_ops_skipped": skipped, "max_depth_with_new_state": maxDepth, "depth_bound": cfg.MaxDepth, "state_space_closed_below_bound": fullyExplored, "alphabet": len(cfg.Ops), "congruence_pairs_checked": congrChecked, "capped": capped})
		if capped != "" {
			r.Cap(p, cfg.Name+": "+capped)
		}
		for _, s := range sample {
			r.Sample(p, map[string]any{"scenario": cfg.Name, "history": s})
		}
	}
	if cfg.MinStates > 0 && states < cfg.MinStates && capped == "" {
		r.EngineError("scenario %s: vacuous exploration: %d states < %d", cfg.Name, states, cfg.MinStates)
	}
}
