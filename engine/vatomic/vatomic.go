//go:build verif

// Package vatomic replaces sync/atomic in instrumented packages: every
// operation is preceded by a scheduling point, then performed natively.
package vatomic

import (
	"sync/atomic"
	"unsafe"

	"google.golang.org/grpc/internal/verif/vsched"
)

func pt(obj any) {
	if vsched.Active() {
		vsched.Point(vsched.Op{Kind: vsched.OpAtomic, Obj: obj})
	}
}

func AddInt32(addr *int32, delta int32) int32     { pt(addr); return atomic.AddInt32(addr, delta) }
func AddInt64(addr *int64, delta int64) int64     { pt(addr); return atomic.AddInt64(addr, delta) }
func AddUint32(addr *uint32, delta uint32) uint32 { pt(addr); return atomic.AddUint32(addr, delta) }
func AddUint64(addr *uint64, delta uint64) uint64 { pt(addr); return atomic.AddUint64(addr, delta) }
func LoadInt32(addr *int32) int32                 { pt(addr); return atomic.LoadInt32(addr) }
func LoadInt64(addr *int64) int64                 { pt(addr); return atomic.LoadInt64(addr) }
func LoadUint32(addr *uint32) uint32              { pt(addr); return atomic.LoadUint32(addr) }
func LoadUint64(addr *uint64) uint64              { pt(addr); return atomic.LoadUint64(addr) }
func StoreInt32(addr *int32, v int32)             { pt(addr); atomic.StoreInt32(addr, v) }
func StoreInt64(addr *int64, v int64)             { pt(addr); atomic.StoreInt64(addr, v) }
func StoreUint32(addr *uint32, v uint32)          { pt(addr); atomic.StoreUint32(addr, v) }
func StoreUint64(addr *uint64, v uint64)          { pt(addr); atomic.StoreUint64(addr, v) }
func SwapInt32(addr *int32, v int32) int32        { pt(addr); return atomic.SwapInt32(addr, v) }
func SwapInt64(addr *int64, v int64) int64        { pt(addr); return atomic.SwapInt64(addr, v) }
func SwapUint32(addr *uint32, v uint32) uint32    { pt(addr); return atomic.SwapUint32(addr, v) }
func SwapUint64(addr *uint64, v uint64) uint64    { pt(addr); return atomic.SwapUint64(addr, v) }
func CompareAndSwapInt32(addr *int32, o, n int32) bool {
	pt(addr)
	return atomic.CompareAndSwapInt32(addr, o, n)
}
func CompareAndSwapInt64(addr *int64, o, n int64) bool {
	pt(addr)
	return atomic.CompareAndSwapInt64(addr, o, n)
}
func CompareAndSwapUint32(addr *uint32, o, n uint32) bool {
	pt(addr)
	return atomic.CompareAndSwapUint32(addr, o, n)
}
func CompareAndSwapUint64(addr *uint64, o, n uint64) bool {
	pt(addr)
	return atomic.CompareAndSwapUint64(addr, o, n)
}
func LoadPointer(addr *unsafe.Pointer) unsafe.Pointer     { pt(addr); return atomic.LoadPointer(addr) }
func StorePointer(addr *unsafe.Pointer, v unsafe.Pointer) { pt(addr); atomic.StorePointer(addr, v) }
func SwapPointer(addr *unsafe.Pointer, v unsafe.Pointer) unsafe.Pointer {
	pt(addr)
	return atomic.SwapPointer(addr, v)
}
func CompareAndSwapPointer(addr *unsafe.Pointer, o, n unsafe.Pointer) bool {
	pt(addr)
	return atomic.CompareAndSwapPointer(addr, o, n)
}

type Int32 struct{ v atomic.Int32 }

func (x *Int32) Load() int32                    { pt(x); return x.v.Load() }
func (x *Int32) Store(v int32)                  { pt(x); x.v.Store(v) }
func (x *Int32) Swap(v int32) int32             { pt(x); return x.v.Swap(v) }
func (x *Int32) CompareAndSwap(o, n int32) bool { pt(x); return x.v.CompareAndSwap(o, n) }
func (x *Int32) Add(d int32) int32              { pt(x); return x.v.Add(d) }
func (x *Int32) And(m int32) int32              { pt(x); return x.v.And(m) }
func (x *Int32) Or(m int32) int32               { pt(x); return x.v.Or(m) }

type Int64 struct{ v atomic.Int64 }

func (x *Int64) Load() int64                    { pt(x); return x.v.Load() }
func (x *Int64) Store(v int64)                  { pt(x); x.v.Store(v) }
func (x *Int64) Swap(v int64) int64             { pt(x); return x.v.Swap(v) }
func (x *Int64) CompareAndSwap(o, n int64) bool { pt(x); return x.v.CompareAndSwap(o, n) }
func (x *Int64) Add(d int64) int64              { pt(x); return x.v.Add(d) }
func (x *Int64) And(m int64) int64              { pt(x); return x.v.And(m) }
func (x *Int64) Or(m int64) int64               { pt(x); return x.v.Or(m) }

type Uint32 struct{ v atomic.Uint32 }

func (x *Uint32) Load() uint32                    { pt(x); return x.v.Load() }
func (x *Uint32) Store(v uint32)                  { pt(x); x.v.Store(v) }
func (x *Uint32) Swap(v uint32) uint32            { pt(x); return x.v.Swap(v) }
func (x *Uint32) CompareAndSwap(o, n uint32) bool { pt(x); return x.v.CompareAndSwap(o, n) }
func (x *Uint32) Add(d uint32) uint32             { pt(x); return x.v.Add(d) }
func (x *Uint32) And(m uint32) uint32             { pt(x); return x.v.And(m) }
func (x *Uint32) Or(m uint32) uint32              { pt(x); return x.v.Or(m) }

type Uint64 struct{ v atomic.Uint64 }

func (x *Uint64) Load() uint64                    { pt(x); return x.v.Load() }
func (x *Uint64) Store(v uint64)                  { pt(x); x.v.Store(v) }
func (x *Uint64) Swap(v uint64) uint64            { pt(x); return x.v.Swap(v) }
func (x *Uint64) CompareAndSwap(o, n uint64) bool { pt(x); return x.v.CompareAndSwap(o, n) }
func (x *Uint64) Add(d uint64) uint64             { pt(x); return x.v.Add(d) }
func (x *Uint64) And(m uint64) uint64             { pt(x); return x.v.And(m) }
func (x *Uint64) Or(m uint64) uint64              { pt(x); return x.v.Or(m) }

type Uintptr struct{ v atomic.Uintptr }

func (x *Uintptr) Load() uintptr                    { pt(x); return x.v.Load() }
func (x *Uintptr) Store(v uintptr)                  { pt(x); x.v.Store(v) }
func (x *Uintptr) Swap(v uintptr) uintptr           { pt(x); return x.v.Swap(v) }
func (x *Uintptr) CompareAndSwap(o, n uintptr) bool { pt(x); return x.v.CompareAndSwap(o, n) }
func (x *Uintptr) Add(d uintptr) uintptr            { pt(x); return x.v.Add(d) }

type Bool struct{ v atomic.Bool }

func (x *Bool) Load() bool                    { pt(x); return x.v.Load() }
func (x *Bool) Store(v bool)                  { pt(x); x.v.Store(v) }
func (x *Bool) Swap(v bool) bool              { pt(x); return x.v.Swap(v) }
func (x *Bool) CompareAndSwap(o, n bool) bool { pt(x); return x.v.CompareAndSwap(o, n) }

type Pointer[T any] struct{ v atomic.Pointer[T] }

func (x *Pointer[T]) Load() *T                    { pt(x); return x.v.Load() }
func (x *Pointer[T]) Store(v *T)                  { pt(x); x.v.Store(v) }
func (x *Pointer[T]) Swap(v *T) *T                { pt(x); return x.v.Swap(v) }
func (x *Pointer[T]) CompareAndSwap(o, n *T) bool { pt(x); return x.v.CompareAndSwap(o, n) }

type Value struct{ v atomic.Value }

func (x *Value) Load() any                    { pt(x); return x.v.Load() }
func (x *Value) Store(v any)                  { pt(x); x.v.Store(v) }
func (x *Value) Swap(v any) any               { pt(x); return x.v.Swap(v) }
func (x *Value) CompareAndSwap(o, n any) bool { pt(x); return x.v.CompareAndSwap(o, n) }
