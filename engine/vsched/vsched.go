//go:build verif

// Package vsched is the controlled scheduler of engine E1: it runs the real
// (instrumented) code of one scenario under every thread schedule with at most
// B deviations (CHESS-style preemption bounding). See /verif/DESIGN.md §2.1.
//
// Every execution runs in its own testing/synctest bubble. Managed goroutines
// call Point before each shared-state step (the shims in vsync/vatomic and the
// statements inserted by vinstr do that) and park; the scheduler goroutine
// calls synctest.Wait (all goroutines durably blocked = quiescent), computes
// the enabled set and resumes exactly one thread.
package vsched

import (
	"bytes"
	"fmt"
	"reflect"
	"runtime"
	"sort"
	"strconv"
	"strings"
	"sync"
	"sync/atomic"
	"time"
)

// OpKind classifies a scheduling point.
type OpKind uint8

const (
	OpStart OpKind = iota
	OpLock
	OpRLock
	OpAtomic
	OpChan
	OpSelect
	OpCondWait
	OpWGWait
	OpYield
	OpAdvance
	OpUser
)

var kindNames = [...]string{"start", "lock", "rlock", "atomic", "chan", "select", "condwait", "wgwait", "yield", "advance", "user"}

func (k OpKind) String() string { return kindNames[k] }

// Op is a pending operation of a parked thread.
type Op struct {
	Kind    OpKind
	Obj     any           // identity of the object touched (pointer), may be nil
	Enabled func() bool   // nil = always enabled
	D       time.Duration // OpAdvance
	Site    string        // optional file:line label
}

type thread struct {
	id         int
	name       string
	wake       chan struct{}
	pending    *Op
	done       bool
	adopted    bool
	background bool   // service goroutine started during set-up: never required to finish
	last       string // description of the last op passed (for stuck reports)
	steps      int
}

// choice is one recorded choice point.
type choice struct {
	n       int  // number of alternatives
	chosen  int  // index taken
	preempt bool // alternatives other than 0 cost one deviation
}

// Sched is the scheduler of one execution.
type Sched struct {
	mu               sync.Mutex
	threads          []*thread
	byGoid           map[uint64]*thread
	running          *thread
	prefix           []int
	choices          []choice
	steps            int
	horizon          int
	sig              uint64 // running hash of (thread, kind) per step: determinism signature
	diverged         string
	log              []string // harness observations, in schedule order
	panics           []string
	wantSite         bool
	trace            []string
	stuck            string
	livelock         bool
	over             bool // scheduler no longer controlling (teardown)
	setup            bool // scenario body still building: shims pass through
	bgSetup          bool // goroutines the code under test starts during set-up run at once (X.BackgroundSetup)
	holdSetupThreads bool // x.Go during set-up registers a thread that waits for the scheduler (default for harness threads)
}

var active atomic.Pointer[Sched]

// free-running mode (race-detector pass): no scheduler, threads are plain
// goroutines that are only counted.
var (
	freeMode atomic.Bool
	freeLive atomic.Int64
)

// Active reports whether a scheduler currently controls execution.
func Active() bool { return active.Load() != nil }

func goid() uint64 {
	var buf [40]byte
	n := runtime.Stack(buf[:], false)
	// "goroutine 123 ["
	b := buf[10:n]
	i := bytes.IndexByte(b, ' ')
	if i < 0 {
		return 0
	}
	id, _ := strconv.ParseUint(string(b[:i]), 10, 64)
	return id
}

func (s *Sched) me() *thread {
	g := goid()
	s.mu.Lock()
	th := s.byGoid[g]
	if th == nil {
		th = &thread{id: len(s.threads), name: "adopted", wake: make(chan struct{}, 1), adopted: true}
		s.threads = append(s.threads, th)
		s.byGoid[g] = th
	}
	s.mu.Unlock()
	return th
}

// Point is called by a managed goroutine immediately before a shared-state
// step. It parks until the scheduler picks this thread. When no scheduler is
// active it returns at once.
func Point(op Op) {
	s := active.Load()
	if s == nil {
		if op.Enabled != nil && freeLive.Load() > 0 {
			// free-running (-race) pass: a harness-level wait becomes a spin
			for !op.Enabled() {
				runtime.Gosched()
				time.Sleep(time.Microsecond)
			}
		}
		return
	}
	if s.setup {
		return
	}
	th := s.me()
	if s.wantSite && op.Site == "" {
		op.Site = callerSite()
	}
	s.mu.Lock()
	if s.over {
		s.mu.Unlock()
		return
	}
	th.pending = &op
	s.mu.Unlock()
	<-th.wake
}

// PointKind is Point for a plain always-enabled op.
func PointKind(k OpKind, obj any) { Point(Op{Kind: k, Obj: obj}) }

// Yield marks a visible wait (spin / poll loops).
func Yield() { Point(Op{Kind: OpYield}) }

// Advance is an explicit time step: when chosen, the scheduler itself sleeps d
// of virtual time (firing real timers) before resuming the caller.
func Advance(d time.Duration) {
	if active.Load() == nil {
		time.Sleep(d)
		return
	}
	Point(Op{Kind: OpAdvance, D: d})
}

func callerSite() string {
	pcs := make([]uintptr, 12)
	n := runtime.Callers(3, pcs)
	fr := runtime.CallersFrames(pcs[:n])
	for {
		f, more := fr.Next()
		if !strings.Contains(f.File, "/internal/verif/") {
			file := f.File
			if i := strings.LastIndex(file, "/"); i >= 0 {
				file = file[i+1:]
			}
			return fmt.Sprintf("%s:%d", file, f.Line)
		}
		if !more {
			return ""
		}
	}
}

// Go starts fn as a managed thread (ids in creation order). With no active
// scheduler it is a plain go statement.
func Go(fn func()) { GoNamed("", fn) }

// GoNamed is Go with a thread name used in reports.
func GoNamed(name string, fn func()) {
	s := active.Load()
	if s == nil {
		if freeMode.Load() {
			freeLive.Add(1)
			go func() {
				defer freeLive.Add(-1)
				defer func() { recover() }()
				fn()
			}()
			return
		}
		go fn()
		return
	}
	s.mu.Lock()
	if s.over {
		s.mu.Unlock()
		go fn()
		return
	}
	th := &thread{id: len(s.threads), name: name, wake: make(chan struct{}, 1)}
	s.threads = append(s.threads, th)
	if s.setup && s.bgSetup && !s.holdSetupThreads {
		// Goroutines started by the code under test while the scenario is
		// still being set up (e.g. a transport's reader and writer loops) run
		// at once, un-scheduled, but are registered so that they park at their
		// first point once exploration starts.
		th.background = true
		s.mu.Unlock()
		go func() {
			g := goid()
			s.mu.Lock()
			s.byGoid[g] = th
			s.mu.Unlock()
			defer s.exit(th)
			fn()
		}()
		return
	}
	start := Op{Kind: OpStart}
	th.pending = &start
	s.mu.Unlock()
	go func() {
		g := goid()
		s.mu.Lock()
		s.byGoid[g] = th
		s.mu.Unlock()
		defer s.exit(th)
		<-th.wake
		fn()
	}()
}

func (s *Sched) exit(th *thread) {
	if p := recover(); p != nil {
		buf := make([]byte, 4096)
		buf = buf[:runtime.Stack(buf, false)]
		s.mu.Lock()
		s.panics = append(s.panics, fmt.Sprintf("thread %d(%s) panicked: %v\n%s", th.id, th.name, p, buf))
		s.mu.Unlock()
	}
	s.mu.Lock()
	th.done = true
	th.pending = nil
	s.mu.Unlock()
}

// Exit must be deferred by adopted goroutines that want to be tracked to their
// end; normally unnecessary.

// Choose records an environment choice with n alternatives (default 0; any
// other answer costs one deviation) and returns the chosen index. With no
// scheduler it returns 0.
func Choose(n int) int {
	s := active.Load()
	if s == nil || n <= 1 {
		return 0
	}
	s.mu.Lock()
	defer s.mu.Unlock()
	if s.over || s.setup {
		return 0
	}
	return s.chooseLocked(n, true)
}

// SelectPoint is the scheduling point before a rewritten select with n channel
// cases; it returns the rotation start (see vinstr).
func SelectPoint(n int, site string) int {
	if active.Load() == nil {
		return 0
	}
	Point(Op{Kind: OpSelect, Site: site})
	return Choose(n)
}

// Elem returns the zero value of a channel's element type (used by rewritten
// selects to declare receive temporaries).
func Elem[T any](<-chan T) (z T) { return }

func (s *Sched) chooseLocked(n int, preempt bool) int {
	idx := len(s.choices)
	c := 0
	if idx < len(s.prefix) {
		c = s.prefix[idx]
		if c >= n {
			if s.diverged == "" {
				s.diverged = fmt.Sprintf("choice %d: prefix wants alternative %d but only %d exist", idx, c, n)
			}
			c = 0
		}
	}
	s.choices = append(s.choices, choice{n: n, chosen: c, preempt: preempt})
	return c
}

// Observe appends a harness observation to the execution log (schedule order).
func Observe(format string, a ...any) {
	s := active.Load()
	if s == nil {
		return
	}
	s.mu.Lock()
	s.log = append(s.log, fmt.Sprintf(format, a...))
	s.mu.Unlock()
}

func (s *Sched) enabled(th *thread) bool {
	op := th.pending
	if op == nil {
		return false
	}
	if op.Enabled == nil {
		return true
	}
	return op.Enabled()
}

func mix(h uint64, v uint64) uint64 {
	h ^= v + 0x9e3779b97f4a7c15 + (h << 6) + (h >> 2)
	return h
}

// loop drives the threads until all known threads are done, nothing is enabled
// (stuck) or the horizon is reached. wait is synctest.Wait. onStuck may perform
// an environment action (returns true if it changed something).
func (s *Sched) loop(wait func(), onStuck func() bool) {
	stuckTries := 0
	for {
		wait()
		s.mu.Lock()
		if len(s.panics) > 0 {
			s.mu.Unlock()
			return
		}
		var en []*thread
		alive := 0
		for _, th := range s.threads {
			if th.done || ((th.adopted || th.background) && th.pending == nil) {
				// adopted goroutines (timer callbacks etc.) are only tracked
				// while parked at a point: we cannot see them exit.
				continue
			}
			alive++
			if s.enabled(th) {
				en = append(en, th)
			}
		}
		if alive == 0 {
			s.mu.Unlock()
			return
		}
		if len(en) == 0 {
			s.mu.Unlock()
			if onStuck != nil && stuckTries < 8 {
				stuckTries++
				if onStuck() {
					continue
				}
			}
			s.mu.Lock()
			s.stuck = s.describeBlockedLocked()
			s.mu.Unlock()
			return
		}
		if s.steps >= s.horizon {
			s.livelock = true
			s.stuck = "horizon reached (livelock or too-small horizon): " + s.describeBlockedLocked()
			s.mu.Unlock()
			return
		}
		// canonical order: running thread first if enabled, then ascending id
		runEn := false
		if s.running != nil {
			for i, th := range en {
				if th == s.running {
					runEn = true
					copy(en[1:i+1], en[:i])
					en[0] = th
					break
				}
			}
		}
		c := 0
		if len(en) > 1 {
			c = s.chooseLocked(len(en), runEn)
		}
		th := en[c]
		op := th.pending
		th.pending = nil
		th.steps++
		s.running = th
		s.steps++
		s.sig = mix(s.sig, uint64(th.id)<<8|uint64(op.Kind))
		if s.wantSite {
			th.last = fmt.Sprintf("%s@%s", op.Kind, op.Site)
			s.trace = append(s.trace, fmt.Sprintf("T%d(%s) %s %s", th.id, th.name, op.Kind, op.Site))
		} else {
			th.last = op.Kind.String()
		}
		s.mu.Unlock()
		if op.Kind == OpAdvance {
			time.Sleep(op.D)
		}
		th.wake <- struct{}{}
	}
}

func (s *Sched) describeBlockedLocked() string {
	var sb strings.Builder
	for _, th := range s.threads {
		if th.done || ((th.adopted || th.background) && th.pending == nil) {
			continue
		}
		if th.pending != nil {
			fmt.Fprintf(&sb, "T%d(%s) parked at disabled %s %s; ", th.id, th.name, th.pending.Kind, th.pending.Site)
		} else {
			fmt.Fprintf(&sb, "T%d(%s) natively blocked after %s; ", th.id, th.name, th.last)
		}
	}
	return sb.String()
}

// release ends scheduler control: every parked thread is let go and all shims
// fall through to the native primitives from now on.
func (s *Sched) release() {
	s.mu.Lock()
	s.over = true
	var parked []*thread
	for _, th := range s.threads {
		if !th.done && th.pending != nil {
			th.pending = nil
			parked = append(parked, th)
		}
	}
	s.mu.Unlock()
	active.Store(nil)
	for _, th := range parked {
		th.wake <- struct{}{}
	}
}

// Alive returns the ids of known threads that have not finished.
func (s *Sched) aliveNames() []string {
	s.mu.Lock()
	defer s.mu.Unlock()
	var out []string
	for _, th := range s.threads {
		if !th.done {
			out = append(out, fmt.Sprintf("T%d(%s)", th.id, th.name))
		}
	}
	sort.Strings(out)
	return out
}

// Orderer lets pointer/interface map keys define a deterministic iteration
// order for MapKeys (harness-owned fakes implement it).
type Orderer interface{ VerifOrder() int }

func cmpAny(a, b any) (int, bool) {
	switch x := a.(type) {
	case string:
		if y, ok := b.(string); ok {
			return strings.Compare(x, y), true
		}
	case int:
		if y, ok := b.(int); ok {
			return cmpInt(int64(x), int64(y)), true
		}
	case int32:
		if y, ok := b.(int32); ok {
			return cmpInt(int64(x), int64(y)), true
		}
	case int64:
		if y, ok := b.(int64); ok {
			return cmpInt(x, y), true
		}
	case uint32:
		if y, ok := b.(uint32); ok {
			return cmpInt(int64(x), int64(y)), true
		}
	case uint64:
		if y, ok := b.(uint64); ok {
			if x < y {
				return -1, true
			} else if x > y {
				return 1, true
			}
			return 0, true
		}
	case uint:
		if y, ok := b.(uint); ok {
			return cmpInt(int64(x), int64(y)), true
		}
	}
	if x, ok := a.(Orderer); ok {
		if y, ok := b.(Orderer); ok {
			return cmpInt(int64(x.VerifOrder()), int64(y.VerifOrder())), true
		}
	}
	if x, ok := a.(fmt.Stringer); ok {
		if y, ok := b.(fmt.Stringer); ok {
			return strings.Compare(x.String(), y.String()), true
		}
	}
	// plain value types (structs/arrays of strings and numbers): their printed
	// form is deterministic; anything containing pointers is not.
	if pureValue(reflect.TypeOf(a)) && pureValue(reflect.TypeOf(b)) {
		return strings.Compare(fmt.Sprintf("%T%v", a, a), fmt.Sprintf("%T%v", b, b)), true
	}
	return 0, false
}

func pureValue(t reflect.Type) bool {
	if t == nil {
		return false
	}
	switch t.Kind() {
	case reflect.Bool, reflect.Int, reflect.Int8, reflect.Int16, reflect.Int32, reflect.Int64, reflect.Uint, reflect.Uint8, reflect.Uint16, reflect.Uint32, reflect.Uint64, reflect.Uintptr, reflect.Float32, reflect.Float64, reflect.String:
		return true
	case reflect.Array:
		return pureValue(t.Elem())
	case reflect.Struct:
		for i := 0; i < t.NumField(); i++ {
			if !pureValue(t.Field(i).Type) {
				return false
			}
		}
		return true
	}
	return false
}

// SortAny sorts keys deterministically if they are all mutually comparable by
// the rules of MapKeys; it reports whether it could.
func SortAny(keys []any) bool {
	sortable := true
	sort.SliceStable(keys, func(i, j int) bool {
		c, ok := cmpAny(keys[i], keys[j])
		if !ok {
			sortable = false
		}
		return c < 0
	})
	return sortable
}

func cmpInt(a, b int64) int {
	if a < b {
		return -1
	} else if a > b {
		return 1
	}
	return 0
}

// MapKeys returns the keys of m in a deterministic order (ascending for
// ordered key types, VerifOrder for keys implementing Orderer; keys that cannot
// be ordered keep Go's native order and the harness must then be
// order-insensitive). Under an active scheduler the explorer may reverse the
// order at the cost of one deviation, so both extreme iteration orders of every
// instrumented map range are explored. vinstr rewrites `for k, v := range m`
// into a loop over MapKeys(m) that re-looks each key up (entries deleted during
// the iteration are skipped, as the language guarantees).
func MapKeys[K comparable, V any](m map[K]V) []K {
	keys := make([]K, 0, len(m))
	for k := range m {
		keys = append(keys, k)
	}
	if len(keys) < 2 {
		return keys
	}
	sortable := true
	sort.SliceStable(keys, func(i, j int) bool {
		c, ok := cmpAny(any(keys[i]), any(keys[j]))
		if !ok {
			sortable = false
		}
		return c < 0
	})
	if sortable && Choose(2) == 1 {
		for i, j := 0, len(keys)-1; i < j; i, j = i+1, j-1 {
			keys[i], keys[j] = keys[j], keys[i]
		}
	}
	return keys
}
