//go:build verif

package vsched

import (
	"fmt"
	"os"
	"strconv"
	"strings"
	"testing"
	"time"

	"google.golang.org/grpc/internal/verif/vk"
)

// Scenario is one closed driver explored by RunScenarios.
type Scenario struct {
	Name        string
	Bound       int // deviations; use r.Pick(q, th)
	Horizon     int
	MaxExecs    int64
	MinOutcomes int // vacuity guard: at least this many distinct outcome classes must be seen (0 = none)
	Body        func(x *X)
}

type replayRec struct {
	Scenario string `json:"scenario"`
	Choices  []int  `json:"choices"`
}

// RunScenarios explores every scenario (sharding each across the leg's worker
// processes), feeds statistics and violations for the listed properties into r
// and handles --replay. All scenarios count towards every prop in props; a
// Failure names the property it violates.
func RunScenarios(t *testing.T, r *vk.Run, props []string, scs []Scenario) {
	shard, nshards := r.Shard()
	SetHangHook(func(name string, choices []int, fails []Failure, why string) {
		if len(fails) == 0 {
			r.EngineError("scenario %s: %s (choices %v)", name, why, choices)
			return
		}
		for _, f := range fails {
			r.Violation(f.Prop, name+"/"+f.Key, f.Desc+"\n  ("+why+"; worker stopped after this execution)", replayRec{Scenario: name, Choices: choices})
		}
	})
	if f := r.ReplayFile(); f != "" {
		var rp replayRec
		if err := r.LoadReplay(&rp); err != nil {
			r.EngineError("replay: %v", err)
			return
		}
		for _, sc := range scs {
			if sc.Name != rp.Scenario {
				continue
			}
			res := RunOnce(t, Config{Name: sc.Name, Horizon: sc.Horizon, Body: sc.Body}, rp.Choices, true)
			fmt.Printf("replay scenario=%s choices=%v steps=%d\n", sc.Name, rp.Choices, res.Steps)
			for _, l := range res.Trace {
				fmt.Println("  ", l)
			}
			fmt.Println("observations:", strings.Join(res.Log, " | "))
			if res.Stuck != "" {
				fmt.Println("stuck:", res.Stuck)
			}
			for _, p := range props {
				r.Eval(p, 1)
			}
			for _, f := range res.Fails {
				fmt.Printf("FAIL %s %s: %s\n", f.Prop, f.Key, f.Desc)
				r.Violation(f.Prop, f.Key, f.Desc, rp)
			}
			return
		}
		r.EngineError("replay: scenario %q not found", rp.Scenario)
		return
	}
	if n := os.Getenv("VERIF_FREE_RUN"); n != "" {
		iters, _ := strconv.Atoi(n)
		total := 0
		for _, sc := range scs {
			total += RunFree(t, Config{Name: sc.Name, Body: sc.Body}, iters)
		}
		for _, p := range props {
			r.Eval(p, int64(total))
			r.NontrivialN(p, int64(total))
			r.Rule(p, "free-running race-detector pass (sampling; decides nothing)")
			r.Sample(p, "free run")
		}
		return
	}
	legStart := time.Now()
	budget := r.Budget()
	for i, sc := range scs {
		// each scenario gets an equal share of what is left of the leg's soft budget
		var over func() bool
		if budget > 0 {
			left := budget - time.Since(legStart)
			deadline := time.Now().Add(left / time.Duration(len(scs)-i))
			over = func() bool { return time.Now().After(deadline) }
		}
		cfg := Config{Name: sc.Name, Bound: sc.Bound, Horizon: sc.Horizon, MaxExecs: sc.MaxExecs, Shard: shard, NShards: nshards, Body: sc.Body, OverBudget: over}
		st := Explore(t, cfg)
		for _, e := range st.EngineErrors {
			r.EngineError("%s", e)
		}
		for _, p := range props {
			r.Eval(p, st.Executions)
			r.NontrivialN(p, st.Deviating)
			for o, n := range st.Outcomes {
				r.Outcome(p, sc.Name+":"+o)
				_ = n
			}
			r.AddInt(p, "max_steps_per_execution", 0)
			r.Set(p, "scenario/"+sc.Name, map[string]any{"executions": st.Executions, "by_deviation_count": st.ByCost, "bound_completed": st.BoundCompleted, "max_steps": st.MaxSteps, "max_choice_points": st.MaxChoices, "distinct_outcomes": len(st.Outcomes), "capped": st.Capped})
			if st.Capped != "" {
				r.Cap(p, sc.Name+": "+st.Capped)
			}
		}
		if sc.MinOutcomes > 0 && nshards == 1 && len(st.Outcomes) < sc.MinOutcomes && len(st.EngineErrors) == 0 && st.Capped == "" {
			r.EngineError("scenario %s: vacuous exploration, %d distinct outcomes < %d required: %v", sc.Name, len(st.Outcomes), sc.MinOutcomes, st.Outcomes)
		}
		for _, v := range st.Violations {
			desc := v.Desc + "\n  schedule (" + fmt.Sprint(len(v.Trace)) + " steps): " + strings.Join(v.Trace, " ; ") + "\n  observations: " + strings.Join(v.Log, " | ")
			r.Violation(v.Prop, sc.Name+"/"+v.Key, desc, replayRec{Scenario: sc.Name, Choices: v.Choices})
		}
	}
}
