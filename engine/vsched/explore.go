//go:build verif

package vsched

import (
	"fmt"
	"os"
	"strings"
	"testing"
	"testing/synctest"
	"time"
)

// X is the per-execution handle given to a scenario body.
type X struct {
	s        *Sched
	t        *testing.T
	onStuck  func() bool
	final    func(x *X)
	cleanup  func()
	fails    []Failure
	outcome  string
	Stuck    string // non-empty when the execution ended with live threads and nothing enabled
	Livelock bool
	Panics   []string
	Replay   bool // true when re-running a recorded schedule
}

// Failure is a property violation observed in one execution.
type Failure struct {
	Prop string
	Key  string
	Desc string
}

// Go registers a managed thread; it starts when the scheduler first picks it.
func (x *X) Go(name string, f func()) {
	x.s.mu.Lock()
	x.s.holdSetupThreads = true
	x.s.mu.Unlock()
	GoNamed(name, f)
	x.s.mu.Lock()
	x.s.holdSetupThreads = false
	x.s.mu.Unlock()
}

// BackgroundSetup makes goroutines that the code under test starts during the
// set-up phase (e.g. a transport's reader and writer loops) run immediately,
// un-scheduled, instead of waiting for the scheduler; they are registered and
// park at their first scheduling point once exploration begins, and are not
// required to finish. Call it first in the scenario body.
func (x *X) BackgroundSetup() {
	x.s.mu.Lock()
	x.s.bgSetup = true
	x.s.mu.Unlock()
}

// OnStuck installs an environment action tried when no thread is enabled.
func (x *X) OnStuck(f func() bool) { x.onStuck = f }

// Final installs the end-of-execution check; it runs after scheduler control
// ended (shims pass through) but before Cleanup.
func (x *X) Final(f func(x *X)) { x.final = f }

// Cleanup installs teardown that must release every goroutine of the scenario.
func (x *X) Cleanup(f func()) { x.cleanup = f }

// Fail records a violation of prop in this execution.
func (x *X) Fail(prop, key, format string, a ...any) {
	x.s.mu.Lock()
	x.fails = append(x.fails, Failure{Prop: prop, Key: key, Desc: fmt.Sprintf(format, a...)})
	x.s.mu.Unlock()
}

// Outcome sets this execution's observable outcome class (vacuity statistics).
func (x *X) Outcome(o string) { x.outcome = o }

// Log returns the observations recorded with Observe, in schedule order.
func (x *X) Log() []string {
	x.s.mu.Lock()
	defer x.s.mu.Unlock()
	return append([]string(nil), x.s.log...)
}

// Config describes one scenario exploration.
type Config struct {
	Name     string
	Bound    int   // maximum number of deviations (preemptions / non-default env answers)
	MaxExecs int64 // 0 = unlimited
	Horizon  int   // max scheduling steps per execution (default 5000)
	Shard    int
	NShards  int
	Body     func(x *X)
	// OverBudget, if set, is polled between executions.
	OverBudget func() bool
}

// ExecResult is what one execution produced.
type ExecResult struct {
	Choices  []int
	n        []int
	preempt  []bool
	Sig      uint64
	Steps    int
	Fails    []Failure
	Outcome  string
	Stuck    string
	Panics   []string
	Diverged string
	Trace    []string
	Log      []string
	Hung     bool
}

// Stats summarises an exploration.
type Stats struct {
	Executions     int64
	Deviating      int64 // executions with >=1 non-default choice (distinct by construction)
	ByCost         []int64
	BoundCompleted int // highest deviation bound fully explored (-1 if none)
	MaxSteps       int
	MaxChoices     int
	Outcomes       map[string]int64
	Capped         string
	Violations     []FoundViolation
	EngineErrors   []string
	Threads        int
}

// FoundViolation is a confirmed, replayable counterexample.
type FoundViolation struct {
	Failure
	Scenario string
	Choices  []int
	Trace    []string
	Log      []string
}

var execWatchdog = 30 * time.Second

// RunOnce executes the scenario under the given choice prefix (defaults after
// it). wantTrace records human-readable sites.
func RunOnce(t *testing.T, cfg Config, prefix []int, wantTrace bool) (res ExecResult) {
	done := make(chan struct{})
	var x *X
	var s *Sched
	go func() {
		// real-time watchdog outside the bubble
		select {
		case <-done:
		case <-time.After(execWatchdog):
			fmt.Fprintf(os.Stderr, "[vsched] execution of %s hung for %v (prefix %v); aborting process\n", cfg.Name, execWatchdog, prefix)
			abort(cfg.Name, prefix, x, s, "execution could not be torn down (hung)")
		}
	}()
	defer close(done)
	synctest.Test(t, func(t *testing.T) {
		s = &Sched{byGoid: map[uint64]*thread{}, prefix: prefix, horizon: cfg.Horizon, wantSite: wantTrace}
		if s.horizon == 0 {
			s.horizon = 5000
		}
		x = &X{s: s, t: t, Replay: wantTrace}
		active.Store(s)
		// the body runs on the bubble's root goroutine as thread 0 ("main"); it
		// is registered so that shims called during set-up do not park.
		s.setup = true // set-up phase: shims pass through, x.Go registers threads
		cfg.Body(x)
		synctest.Wait() // background goroutines started during set-up come to rest
		s.mu.Lock()
		s.setup = false
		s.mu.Unlock()
		s.loop(synctest.Wait, x.onStuck)
		x.Stuck = s.stuck
		x.Livelock = s.livelock
		x.Panics = s.panics
		s.release()
		if x.final != nil {
			x.final(x)
		}
		if len(x.Panics) > 0 {
			// a thread died, possibly holding locks: the instance is poisoned and
			// the bubble cannot be torn down. Report what Final found and stop
			// this worker (the driver keeps flushed violations).
			abort(cfg.Name, prefix, x, s, "a managed thread panicked: "+x.Panics[0])
		}
		if x.Stuck != "" {
			x.s.mu.Lock()
			nf := len(x.fails)
			x.s.mu.Unlock()
			if nf > 0 {
				// deadlocked execution judged a violation: its goroutines can
				// never be released, so the bubble cannot end. Report and stop
				// this worker.
				abort(cfg.Name, prefix, x, s, "execution ended deadlocked: "+x.Stuck)
			}
		}
		if x.cleanup != nil {
			x.cleanup()
		}
	})
	res.Choices = make([]int, len(s.choices))
	res.n = make([]int, len(s.choices))
	res.preempt = make([]bool, len(s.choices))
	for i, c := range s.choices {
		res.Choices[i], res.n[i], res.preempt[i] = c.chosen, c.n, c.preempt
	}
	res.Sig, res.Steps = s.sig, s.steps
	res.Fails, res.Outcome, res.Stuck, res.Panics = x.fails, x.outcome, x.Stuck, x.Panics
	res.Diverged, res.Trace, res.Log = s.diverged, s.trace, s.log
	if len(prefix) > len(s.choices) && res.Diverged == "" {
		res.Diverged = fmt.Sprintf("prefix has %d choices but the execution made only %d", len(prefix), len(s.choices))
	}
	return res
}

var hangHook func(name string, choices []int, fails []Failure, why string)

// SetHangHook installs a callback run just before the process is aborted
// because an execution panicked or could not be torn down. fails are the
// violations that execution had already recorded.
func SetHangHook(f func(name string, choices []int, fails []Failure, why string)) { hangHook = f }

func abort(name string, prefix []int, x *X, s *Sched, why string) {
	var fails []Failure
	choices := prefix
	if x != nil && s != nil {
		s.mu.Lock()
		fails = append(fails, x.fails...)
		choices = make([]int, len(s.choices))
		for i, c := range s.choices {
			choices[i] = c.chosen
		}
		s.mu.Unlock()
	}
	if hangHook != nil {
		hangHook(name, choices, fails, why)
	}
	os.Exit(4)
}

type workItem struct {
	prefix []int
	cost   int
}

// Explore enumerates every schedule of cfg.Body with at most cfg.Bound
// deviations, in order of increasing deviation count, and returns statistics
// and confirmed violations (each replayed 3 more times; a violation that does
// not reproduce identically is an engine error, not a verdict).
func Explore(t *testing.T, cfg Config) Stats {
	st := Stats{Outcomes: map[string]int64{}, BoundCompleted: -1, ByCost: make([]int64, cfg.Bound+1)}
	if cfg.NShards < 1 {
		cfg.NShards = 1
	}
	// determinism self-check on the default schedule
	a := RunOnce(t, cfg, nil, false)
	b := RunOnce(t, cfg, nil, false)
	if a.Sig != b.Sig || a.Steps != b.Steps || len(a.Choices) != len(b.Choices) || strings.Join(a.Log, "|") != strings.Join(b.Log, "|") {
		st.EngineErrors = append(st.EngineErrors, fmt.Sprintf("scenario %s: default schedule is not deterministic (steps %d vs %d, choices %d vs %d)", cfg.Name, a.Steps, b.Steps, len(a.Choices), len(b.Choices)))
		return st
	}
	buckets := make([][]workItem, cfg.Bound+1)
	seenViol := map[string]bool{}
	process := func(it workItem, r ExecResult) {
		st.Executions++
		st.ByCost[it.cost]++
		if it.cost > 0 || len(it.prefix) > 0 {
			st.Deviating++
		}
		if r.Steps > st.MaxSteps {
			st.MaxSteps = r.Steps
		}
		if len(r.Choices) > st.MaxChoices {
			st.MaxChoices = len(r.Choices)
		}
		if r.Diverged != "" {
			st.EngineErrors = append(st.EngineErrors, fmt.Sprintf("scenario %s: replay of prefix %v diverged: %s", cfg.Name, it.prefix, r.Diverged))
			return
		}
		o := r.Outcome
		if o == "" {
			o = "-"
		}
		st.Outcomes[o]++
		for _, f := range r.Fails {
			k := f.Prop + "\x00" + f.Key
			if seenViol[k] {
				continue
			}
			seenViol[k] = true
			// confirm: same schedule must fail the same way every time
			ok := true
			var tr ExecResult
			for i := 0; i < 3 && ok; i++ {
				tr = RunOnce(t, cfg, r.Choices, i == 0)
				found := false
				for _, g := range tr.Fails {
					if g.Prop == f.Prop && g.Key == f.Key {
						found = true
					}
				}
				if i == 0 {
					r.Trace, r.Log = tr.Trace, tr.Log
				}
				ok = found
			}
			if !ok {
				st.EngineErrors = append(st.EngineErrors, fmt.Sprintf("scenario %s: violation %q did not reproduce on replay of %v (unowned nondeterminism)", cfg.Name, f.Key, r.Choices))
				continue
			}
			st.Violations = append(st.Violations, FoundViolation{Failure: f, Scenario: cfg.Name, Choices: r.Choices, Trace: r.Trace, Log: r.Log})
		}
		// children
		for i := len(it.prefix); i < len(r.Choices); i++ {
			for alt := 1; alt < r.n[i]; alt++ {
				c := it.cost
				if r.preempt[i] {
					c++
				}
				if c > cfg.Bound {
					continue
				}
				p := make([]int, i+1)
				copy(p, r.Choices[:i])
				p[i] = alt
				buckets[c] = append(buckets[c], workItem{prefix: p, cost: c})
			}
		}
	}
	root := workItem{}
	process(root, a)
	if cfg.NShards > 1 {
		// Phase 1 (identical in every shard, counted by shard 0 only): expand the
		// tree lowest-deviation-first until there are enough pending subtrees to
		// balance the shards, then deal them out round-robin.
		pending := func() int {
			n := 0
			for _, b := range buckets {
				n += len(b)
			}
			return n
		}
		target := 64 * cfg.NShards
		for pending() > 0 && pending() < target {
			c := 0
			for len(buckets[c]) == 0 {
				c++
			}
			n := len(buckets[c])
			it := buckets[c][n-1]
			buckets[c] = buckets[c][:n-1]
			process(it, RunOnce(t, cfg, it.prefix, false))
			if len(st.EngineErrors) > 3 {
				return st
			}
		}
		if cfg.Shard != 0 {
			st.Executions, st.Deviating, st.ByCost, st.Outcomes = 0, 0, make([]int64, cfg.Bound+1), map[string]int64{}
			st.Violations = nil
			seenViol = map[string]bool{}
		}
		idx := 0
		for c := range buckets {
			var keep []workItem
			for _, it := range buckets[c] {
				if idx%cfg.NShards == cfg.Shard {
					keep = append(keep, it)
				}
				idx++
			}
			buckets[c] = keep
		}
	}
	for c := 0; c <= cfg.Bound; c++ {
		for len(buckets[c]) > 0 {
			if cfg.MaxExecs > 0 && st.Executions >= cfg.MaxExecs {
				st.Capped = fmt.Sprintf("execution cap %d hit at deviation level %d", cfg.MaxExecs, c)
				return st
			}
			if cfg.OverBudget != nil && st.Executions%64 == 0 && cfg.OverBudget() {
				st.Capped = fmt.Sprintf("time budget hit at deviation level %d", c)
				return st
			}
			n := len(buckets[c])
			it := buckets[c][n-1]
			buckets[c] = buckets[c][:n-1]
			r := RunOnce(t, cfg, it.prefix, false)
			process(it, r)
			if len(st.EngineErrors) > 3 {
				return st
			}
		}
		st.BoundCompleted = c
	}
	return st
}

// RunFree runs the scenario body n times WITHOUT the scheduler (shims pass
// through to the native primitives, threads are ordinary goroutines). It decides
// nothing about the property: built with -race it guards the assumption that
// scheduling points at synchronisation operations suffice, i.e. that the
// explored code has no unsynchronised conflicting accesses.
func RunFree(t *testing.T, cfg Config, n int) (runs int) {
	freeMode.Store(true)
	defer freeMode.Store(false)
	for i := 0; i < n; i++ {
		synctest.Test(t, func(t *testing.T) {
			s := &Sched{byGoid: map[uint64]*thread{}}
			x := &X{s: s, t: t}
			cfg.Body(x)
			for tries := 0; tries < 16; tries++ {
				synctest.Wait()
				if freeLive.Load() == 0 {
					break
				}
				if x.onStuck == nil || !x.onStuck() {
					// blocked on virtual time or stuck for good: let time pass once
					time.Sleep(time.Hour)
				}
			}
			if x.cleanup != nil {
				x.cleanup()
			}
			synctest.Wait()
		})
		runs++
	}
	return runs
}
