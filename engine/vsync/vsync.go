//go:build verif

// Package vsync is the API-compatible replacement for package sync that vinstr
// substitutes in instrumented packages. With no active scheduler every type
// behaves exactly like its sync counterpart (so the same binary serves the
// free-running -race pass and set-up/tear-down code); under a scheduler every
// blocking or state-changing operation is a vsched scheduling point.
package vsync

import (
	"sync"
	"sync/atomic"

	"google.golang.org/grpc/internal/verif/vsched"
)

type Locker = sync.Locker
type Pool = sync.Pool

// Mutex wraps sync.Mutex. The real mutex is always taken as well, so that
// tear-down (scheduler released) continues consistently.
type Mutex struct {
	mu   sync.Mutex
	held atomic.Int32
}

func (m *Mutex) Lock() {
	if vsched.Active() {
		vsched.Point(vsched.Op{Kind: vsched.OpLock, Obj: m, Enabled: func() bool { return m.held.Load() == 0 }})
	}
	m.mu.Lock()
	m.held.Store(1)
}

func (m *Mutex) TryLock() bool {
	if vsched.Active() {
		vsched.Point(vsched.Op{Kind: vsched.OpAtomic, Obj: m})
	}
	if m.mu.TryLock() {
		m.held.Store(1)
		return true
	}
	return false
}

func (m *Mutex) Unlock() {
	m.held.Store(0)
	m.mu.Unlock()
}

// RWMutex wraps sync.RWMutex.
type RWMutex struct {
	mu      sync.RWMutex
	writer  atomic.Int32
	readers atomic.Int32
}

func (m *RWMutex) Lock() {
	if vsched.Active() {
		vsched.Point(vsched.Op{Kind: vsched.OpLock, Obj: m, Enabled: func() bool { return m.writer.Load() == 0 && m.readers.Load() == 0 }})
	}
	m.mu.Lock()
	m.writer.Store(1)
}

func (m *RWMutex) Unlock() {
	m.writer.Store(0)
	m.mu.Unlock()
}

func (m *RWMutex) RLock() {
	if vsched.Active() {
		vsched.Point(vsched.Op{Kind: vsched.OpRLock, Obj: m, Enabled: func() bool { return m.writer.Load() == 0 }})
	}
	m.mu.RLock()
	m.readers.Add(1)
}

func (m *RWMutex) RUnlock() {
	m.readers.Add(-1)
	m.mu.RUnlock()
}

func (m *RWMutex) TryLock() bool {
	if vsched.Active() {
		vsched.Point(vsched.Op{Kind: vsched.OpAtomic, Obj: m})
	}
	if m.mu.TryLock() {
		m.writer.Store(1)
		return true
	}
	return false
}

func (m *RWMutex) TryRLock() bool {
	if vsched.Active() {
		vsched.Point(vsched.Op{Kind: vsched.OpAtomic, Obj: m})
	}
	if m.mu.TryRLock() {
		m.readers.Add(1)
		return true
	}
	return false
}

type rlocker RWMutex

func (r *rlocker) Lock()   { (*RWMutex)(r).RLock() }
func (r *rlocker) Unlock() { (*RWMutex)(r).RUnlock() }

func (m *RWMutex) RLocker() Locker { return (*rlocker)(m) }

// WaitGroup wraps sync.WaitGroup; Wait is enabled when the counter is zero.
type WaitGroup struct {
	wg sync.WaitGroup
	n  atomic.Int64
}

func (w *WaitGroup) Add(d int) {
	w.n.Add(int64(d))
	w.wg.Add(d)
}

func (w *WaitGroup) Done() { w.Add(-1) }

func (w *WaitGroup) Wait() {
	if vsched.Active() {
		vsched.Point(vsched.Op{Kind: vsched.OpWGWait, Obj: w, Enabled: func() bool { return w.n.Load() <= 0 }})
	}
	w.wg.Wait()
}

func (w *WaitGroup) Go(f func()) {
	w.Add(1)
	vsched.Go(func() {
		defer w.Done()
		f()
	})
}

// Cond is a FIFO condition variable implemented with per-waiter channels so it
// works both under the scheduler and natively.
type Cond struct {
	L Locker

	mu      sync.Mutex
	waiters []*condWaiter
}

type condWaiter struct {
	ch       chan struct{}
	signaled atomic.Int32
}

func NewCond(l Locker) *Cond { return &Cond{L: l} }

func (c *Cond) Wait() {
	w := &condWaiter{ch: make(chan struct{})}
	c.mu.Lock()
	c.waiters = append(c.waiters, w)
	c.mu.Unlock()
	c.L.Unlock()
	if vsched.Active() {
		vsched.Point(vsched.Op{Kind: vsched.OpCondWait, Obj: c, Enabled: func() bool { return w.signaled.Load() != 0 }})
	}
	<-w.ch
	c.L.Lock()
}

func (c *Cond) Signal() {
	if vsched.Active() {
		vsched.Point(vsched.Op{Kind: vsched.OpAtomic, Obj: c})
	}
	c.mu.Lock()
	var w *condWaiter
	if len(c.waiters) > 0 {
		w = c.waiters[0]
		c.waiters = c.waiters[1:]
	}
	c.mu.Unlock()
	if w != nil {
		w.signaled.Store(1)
		close(w.ch)
	}
}

func (c *Cond) Broadcast() {
	if vsched.Active() {
		vsched.Point(vsched.Op{Kind: vsched.OpAtomic, Obj: c})
	}
	c.mu.Lock()
	ws := c.waiters
	c.waiters = nil
	c.mu.Unlock()
	for _, w := range ws {
		w.signaled.Store(1)
		close(w.ch)
	}
}

// Once mirrors sync.Once on top of the shim Mutex: a Do that finds the work
// done passes without a scheduling point; otherwise it queues on the mutex.
type Once struct {
	done atomic.Uint32
	m    Mutex
}

func (o *Once) Do(f func()) {
	if o.done.Load() == 0 {
		o.doSlow(f)
	}
}

func (o *Once) doSlow(f func()) {
	o.m.Lock()
	defer o.m.Unlock()
	if o.done.Load() == 0 {
		defer o.done.Store(1)
		f()
	}
}

func OnceFunc(f func()) func() {
	var once Once
	var valid bool
	var p any
	g := func() {
		defer func() {
			p = recover()
			if !valid {
				panic(p)
			}
		}()
		f()
		f = nil
		valid = true
	}
	return func() {
		once.Do(g)
		if !valid {
			panic(p)
		}
	}
}

func OnceValue[T any](f func() T) func() T {
	var once Once
	var result T
	return func() T {
		once.Do(func() { result = f() })
		return result
	}
}

func OnceValues[T1, T2 any](f func() (T1, T2)) func() (T1, T2) {
	var once Once
	var r1 T1
	var r2 T2
	return func() (T1, T2) {
		once.Do(func() { r1, r2 = f() })
		return r1, r2
	}
}

// Map wraps sync.Map; every method is one atomic scheduling point.
type Map struct{ m sync.Map }

func (m *Map) pt() {
	if vsched.Active() {
		vsched.Point(vsched.Op{Kind: vsched.OpAtomic, Obj: m})
	}
}
func (m *Map) Load(key any) (any, bool)               { m.pt(); return m.m.Load(key) }
func (m *Map) Store(key, value any)                   { m.pt(); m.m.Store(key, value) }
func (m *Map) LoadOrStore(key, value any) (any, bool) { m.pt(); return m.m.LoadOrStore(key, value) }
func (m *Map) LoadAndDelete(key any) (any, bool)      { m.pt(); return m.m.LoadAndDelete(key) }
func (m *Map) Delete(key any)                         { m.pt(); m.m.Delete(key) }
func (m *Map) Swap(key, value any) (any, bool)        { m.pt(); return m.m.Swap(key, value) }
func (m *Map) CompareAndSwap(key, old, new any) bool {
	m.pt()
	return m.m.CompareAndSwap(key, old, new)
}
func (m *Map) CompareAndDelete(key, old any) bool { m.pt(); return m.m.CompareAndDelete(key, old) }

// Range iterates in a deterministic key order under the scheduler (sync.Map's
// own order depends on per-instance hash seeds, and a live iteration may or
// may not see concurrent stores): keys are snapshotted, sorted by vsched's
// comparator and re-loaded one by one (entries deleted meanwhile are skipped,
// entries stored meanwhile are missed — both allowed by sync.Map's contract).
func (m *Map) Range(f func(key, value any) bool) {
	m.pt()
	if !vsched.Active() {
		m.m.Range(f)
		return
	}
	var keys []any
	m.m.Range(func(k, _ any) bool { keys = append(keys, k); return true })
	if len(keys) > 1 && vsched.SortAny(keys) && vsched.Choose(2) == 1 {
		for i, j := 0, len(keys)-1; i < j; i, j = i+1, j-1 {
			keys[i], keys[j] = keys[j], keys[i]
		}
	}
	for _, k := range keys {
		v, ok := m.m.Load(k)
		if !ok {
			continue
		}
		if !f(k, v) {
			return
		}
	}
}
func (m *Map) Clear() { m.pt(); m.m.Clear() }
